#!/bin/bash
# Offline setup: warms the cargo target directories used by the checks (dependencies of pyxis for the nightly
# MIR dump / rustdoc JSON and for the native replay binary) and runs the interpreter self-test.
cd "$(dirname "$0")"
export CARGO_NET_OFFLINE=true
mkdir -p .cache evidence
python3-vt -m pyxsym.build > .cache/setup.log 2>&1 || { cat .cache/setup.log; exit 1; }
python3-vt -m pyxsym.selftest || exit 1
echo setup ok
