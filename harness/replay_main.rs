//! Native replay binary: runs a verification template on concrete arguments against the real,
//! natively compiled pyxis and prints the summary as JSON (one line), or `{"panic": "..."}`.
//! usage: verif_replay <template> <i64>...      (one run)
//!        verif_replay --batch                  (one `<template> <i64>...` per stdin line)
use pyxis::verif_templates::{Val, TEMPLATES};
use std::io::{BufRead, Write};

fn json(v: &Val, out: &mut String) {
    match v {
        Val::N => out.push_str("null"),
        Val::B(b) => out.push_str(if *b { "true" } else { "false" }),
        Val::U(u) => out.push_str(&u.to_string()),
        Val::I(i) => out.push_str(&i.to_string()),
        Val::S(s) => {
            out.push('"');
            for c in s.chars() {
                match c {
                    '"' => out.push_str("\\\""),
                    '\\' => out.push_str("\\\\"),
                    '\n' => out.push_str("\\n"),
                    '\r' => out.push_str("\\r"),
                    '\t' => out.push_str("\\t"),
                    c if (c as u32) < 0x20 => out.push_str(&format!("\\u{:04x}", c as u32)),
                    c => out.push(c),
                }
            }
            out.push('"');
        }
        Val::L(l) => {
            out.push('[');
            for (i, x) in l.iter().enumerate() {
                if i > 0 {
                    out.push(',');
                }
                json(x, out);
            }
            out.push(']');
        }
    }
}

fn run(name: &str, args: &[i64]) -> String {
    let Some((_, f)) = TEMPLATES.iter().find(|(n, _)| *n == name) else {
        return format!("{{\"error\": \"unknown template {}\"}}", name);
    };
    let f = *f;
    let args = args.to_vec();
    let r = std::panic::catch_unwind(move || f(&args));
    match r {
        Ok(v) => {
            let mut s = String::new();
            json(&v, &mut s);
            s
        }
        Err(e) => {
            let msg = if let Some(s) = e.downcast_ref::<String>() {
                s.clone()
            } else if let Some(s) = e.downcast_ref::<&str>() {
                s.to_string()
            } else {
                "panic".to_string()
            };
            let mut s = String::from("{\"panic\": ");
            json(&Val::S(msg), &mut s);
            s.push('}');
            s
        }
    }
}

fn parse_args(it: &[&str]) -> Vec<i64> {
    it.iter()
        .map(|s| {
            s.parse::<i64>()
                .unwrap_or_else(|_| s.parse::<u64>().expect("integer argument") as i64)
        })
        .collect()
}

fn main() {
    std::panic::set_hook(Box::new(|_| {}));
    let argv: Vec<String> = std::env::args().collect();
    if argv.len() >= 2 && argv[1] == "--batch" {
        let stdin = std::io::stdin();
        let stdout = std::io::stdout();
        for line in stdin.lock().lines() {
            let line = line.unwrap();
            let parts: Vec<&str> = line.split_whitespace().collect();
            if parts.is_empty() {
                continue;
            }
            let out = run(parts[0], &parse_args(&parts[1..]));
            let mut o = stdout.lock();
            writeln!(o, "{}", out).unwrap();
            o.flush().unwrap();
        }
        return;
    }
    if argv.len() >= 4 && argv[1] == "--emit" {
        // verif_replay --emit <dir> <template> <i64>...  : run the template and write its bindings with the real backend
        let dir = std::path::PathBuf::from(&argv[2]);
        pyxis::verif_templates::EMIT_DIR.with(|d| *d.borrow_mut() = Some(dir));
        let refs: Vec<&str> = argv[4..].iter().map(|s| s.as_str()).collect();
        println!("{}", run(&argv[3], &parse_args(&refs)));
        return;
    }
    if argv.len() < 2 {
        eprintln!("usage: verif_replay <template> <i64>...");
        std::process::exit(2);
    }
    let refs: Vec<&str> = argv[2..].iter().map(|s| s.as_str()).collect();
    println!("{}", run(&argv[1], &parse_args(&refs)));
}
