//! Verification templates for pyxis.  This file is compiled *inside* a scratch copy of the crate
//! (`#[path] pub mod verif_templates;` appended to the copy's lib.rs), so that
//!  * the nightly's MIR dump contains these functions next to pyxis's own, and the symbolic
//!    interpreter can enter them with symbolic arguments, and
//!  * the very same functions, compiled natively, are what the replay binary runs on the concrete
//!    values of a solver model.
//! A template builds a `grammar::Module` with pyxis's own public builders from a flat parameter
//! vector, runs the real `SemanticState::{new, add_module, build}`, and returns a structural
//! summary (`Val`) of everything the semantic stage produced.
#![allow(dead_code, clippy::all)]

use crate::grammar::test_aliases::*;
use crate::grammar::{self, ItemPath};
use crate::semantic::types::{
    Argument, EnumDefinition, ExternValue, Function, FunctionBody, ItemCategory, ItemDefinition,
    ItemDefinitionInner, ItemState, Region, Type, TypeDefinition, Visibility,
};
use crate::semantic::{ResolvedSemanticState, SemanticState};

#[derive(Debug, Clone, PartialEq)]
pub enum Val {
    N,
    B(bool),
    U(usize),
    I(isize),
    S(String),
    L(Vec<Val>),
}

fn s(x: &str) -> Val {
    Val::S(x.to_string())
}
fn opt_s(x: &Option<String>) -> Val {
    match x {
        Some(v) => Val::S(v.clone()),
        None => Val::N,
    }
}
fn opt_u(x: Option<usize>) -> Val {
    match x {
        Some(v) => Val::U(v),
        None => Val::N,
    }
}
fn vis(v: Visibility) -> Val {
    match v {
        Visibility::Public => s("pub"),
        Visibility::Private => s("priv"),
    }
}

fn type_val(t: &Type) -> Val {
    match t {
        Type::Unresolved(_) => Val::L(vec![s("unresolved")]),
        Type::Raw(p) => Val::L(vec![s("raw"), Val::S(p.to_string())]),
        Type::ConstPointer(t) => Val::L(vec![s("const*"), type_val(t)]),
        Type::MutPointer(t) => Val::L(vec![s("mut*"), type_val(t)]),
        Type::Array(t, n) => Val::L(vec![s("array"), type_val(t), Val::U(*n)]),
        Type::Function(cc, args, ret) => {
            let mut a = vec![];
            for (name, ty) in args {
                a.push(Val::L(vec![Val::S(name.clone()), type_val(ty)]));
            }
            let r = match ret {
                Some(t) => type_val(t),
                None => Val::N,
            };
            Val::L(vec![s("fn"), s(cc.as_str()), Val::L(a), r])
        }
    }
}

fn function_val(f: &Function) -> Val {
    let body = match &f.body {
        FunctionBody::Address { address } => Val::L(vec![s("address"), Val::U(*address)]),
        FunctionBody::Field {
            field,
            function_name,
        } => Val::L(vec![s("field"), Val::S(field.clone()), Val::S(function_name.clone())]),
        FunctionBody::Vftable { function_name } => {
            Val::L(vec![s("vftable"), Val::S(function_name.clone())])
        }
    };
    let mut args = vec![];
    for a in &f.arguments {
        args.push(match a {
            Argument::ConstSelf => s("&self"),
            Argument::MutSelf => s("&mut self"),
            Argument::Field(n, t) => Val::L(vec![Val::S(n.clone()), type_val(t)]),
        });
    }
    let ret = match &f.return_type {
        Some(t) => type_val(t),
        None => Val::N,
    };
    Val::L(vec![
        s("fn"),
        vis(f.visibility),
        Val::S(f.name.clone()),
        opt_s(&f.doc),
        body,
        Val::L(args),
        ret,
        s(f.calling_convention.as_str()),
    ])
}

fn region_val(st: &ResolvedSemanticState, r: &Region) -> Val {
    Val::L(vec![
        s("region"),
        vis(r.visibility),
        opt_s(&r.name),
        opt_s(&r.doc),
        type_val(&r.type_ref),
        Val::B(r.is_base),
        opt_u(r.type_ref.size(st.type_registry())),
        opt_u(r.type_ref.alignment(st.type_registry())),
    ])
}

fn type_def_val(st: &ResolvedSemanticState, td: &TypeDefinition) -> Val {
    let mut regions = vec![];
    for r in &td.regions {
        regions.push(region_val(st, r));
    }
    let mut fns = vec![];
    for f in &td.associated_functions {
        fns.push(function_val(f));
    }
    let vft = match &td.vftable {
        None => Val::N,
        Some(v) => {
            let mut vf = vec![];
            for f in &v.functions {
                vf.push(function_val(f));
            }
            Val::L(vec![Val::L(vf), opt_s(&v.base_field), type_val(&v.type_)])
        }
    };
    Val::L(vec![
        s("type"),
        Val::L(regions),
        opt_s(&td.doc),
        Val::L(fns),
        vft,
        opt_u(td.singleton),
        Val::B(td.copyable),
        Val::B(td.cloneable),
        Val::B(td.defaultable),
        Val::B(td.packed),
    ])
}

fn enum_def_val(ed: &EnumDefinition) -> Val {
    let mut fields = vec![];
    for (n, v) in &ed.fields {
        fields.push(Val::L(vec![Val::S(n.clone()), Val::I(*v)]));
    }
    Val::L(vec![
        s("enum"),
        type_val(&ed.type_),
        opt_s(&ed.doc),
        Val::L(fields),
        opt_u(ed.singleton),
        Val::B(ed.copyable),
        Val::B(ed.cloneable),
        Val::B(ed.defaultable),
        opt_u(ed.default_index),
    ])
}

fn item_val(st: &ResolvedSemanticState, d: &ItemDefinition) -> Val {
    let cat = match d.category {
        ItemCategory::Defined => s("defined"),
        ItemCategory::Predefined => s("predefined"),
        ItemCategory::Extern => s("extern"),
    };
    let state = match &d.state {
        ItemState::Unresolved(_) => Val::L(vec![s("unresolved")]),
        ItemState::Resolved(r) => {
            let inner = match &r.inner {
                ItemDefinitionInner::Type(td) => type_def_val(st, td),
                ItemDefinitionInner::Enum(ed) => enum_def_val(ed),
            };
            Val::L(vec![s("resolved"), Val::U(r.size), Val::U(r.alignment), inner])
        }
    };
    Val::L(vec![s("item"), Val::S(d.path.to_string()), vis(d.visibility), cat, state])
}

fn extern_value_val(ev: &ExternValue) -> Val {
    Val::L(vec![
        s("extern_value"),
        vis(ev.visibility),
        Val::S(ev.name.clone()),
        type_val(&ev.type_),
        Val::U(ev.address),
    ])
}

/// Everything the semantic stage produced, in an order that does not depend on hash maps.
pub fn state_val(st: &ResolvedSemanticState) -> Val {
    let mut module_paths: Vec<ItemPath> = vec![];
    for (k, _) in st.modules() {
        module_paths.push(k.clone());
    }
    module_paths.sort();
    let mut mods = vec![];
    for mp in &module_paths {
        let m = st.modules().get(mp).unwrap();
        let mut dps: Vec<ItemPath> = vec![];
        for p in m.definition_paths() {
            dps.push(p.clone());
        }
        dps.sort();
        let mut items = vec![];
        for p in &dps {
            match st.type_registry().get(p) {
                Some(d) => {
                    if d.category != ItemCategory::Predefined {
                        items.push(item_val(st, d))
                    }
                }
                None => items.push(Val::L(vec![s("missing"), Val::S(p.to_string())])),
            }
        }
        let mut evs = vec![];
        for ev in &m.extern_values {
            evs.push(extern_value_val(ev));
        }
        mods.push(Val::L(vec![
            s("module"),
            Val::S(mp.to_string()),
            opt_s(&m.doc),
            Val::L(items),
            Val::L(evs),
        ]));
    }
    Val::L(mods)
}

pub fn outcome(r: anyhow::Result<ResolvedSemanticState>) -> Val {
    match r {
        Ok(st) => Val::L(vec![s("ok"), state_val(&st)]),
        Err(e) => {
            let mut msgs = vec![];
            for c in e.chain() {
                msgs.push(Val::S(c.to_string()));
            }
            Val::L(vec![s("err"), Val::L(msgs)])
        }
    }
}

/// The predefined table as the registry holds it after `SemanticState::new` (name, size, alignment).
pub fn t_predefined(a: &[i64]) -> Val {
    let ps = a[0] as usize;
    let st = SemanticState::new(ps);
    let names = [
        "void", "bool", "u8", "u16", "u32", "u64", "u128", "i8", "i16", "i32", "i64", "i128", "f32",
        "f64",
    ];
    let mut out = vec![];
    for n in names {
        let d = st.type_registry.get(&ItemPath::from(n));
        match d {
            Some(d) => out.push(Val::L(vec![s(n), opt_u(d.size()), opt_u(d.alignment())])),
            None => out.push(Val::L(vec![s(n), Val::N, Val::N])),
        }
    }
    Val::L(out)
}

fn build_one(ps: usize, m: &M) -> Val {
    let mut st = SemanticState::new(ps);
    match st.add_module(m, &IP::from("m")) {
        Ok(()) => {}
        Err(e) => {
            let mut msgs = vec![];
            for c in e.chain() {
                msgs.push(Val::S(c.to_string()));
            }
            return Val::L(vec![s("err"), Val::L(msgs)]);
        }
    }
    outcome(st.build())
}

const SCALARS: [&str; 13] = [
    "u8", "u16", "u32", "u64", "u128", "i8", "i16", "i32", "i64", "i128", "bool", "f32", "f64",
];
const FIELD_NAMES: [&str; 6] = ["f0", "f1", "f2", "f3", "f4", "f5"];
const EXT_NAMES: [&str; 6] = ["X0", "X1", "X2", "X3", "X4", "X5"];

/// One field type from (kind, elem, count):
///  kind 0: elem by value; 1: *const elem; 2: *mut elem; 3: [elem; count]; 4: unknown<count>;
///  5: [*const elem; count]
/// elem < 13: the built-in scalar of that index; elem >= 13: the extern type X<i> of this field.
fn field_type(kind: i64, elem: i64, count: usize, i: usize) -> T {
    let base = if elem >= 0 && (elem as usize) < SCALARS.len() {
        T::ident(SCALARS[elem as usize])
    } else {
        T::ident(EXT_NAMES[i])
    };
    match kind {
        0 => base,
        1 => base.const_pointer(),
        2 => base.mut_pointer(),
        3 => base.array(count),
        4 => T::unknown(count),
        _ => base.const_pointer().array(count),
    }
}

/// Layout template: one type `m::T` with `n` fields (n <= 6).
/// a = [ps, n, has_size, size, has_align, align, packed,
///      then per field i (stride 8): kind, elem, count, has_addr, addr, ext_size, ext_align, named]
pub fn t_layout(a: &[i64]) -> Val {
    let ps = a[0] as usize;
    let n = a[1] as usize;
    let mut attrs: Vec<A> = vec![];
    if a[2] != 0 {
        attrs.push(A::integer_fn("size", a[3] as isize));
    }
    if a[4] != 0 {
        attrs.push(A::integer_fn("align", a[5] as isize));
    }
    if a[6] != 0 {
        attrs.push(A::packed());
    }
    let mut stmts: Vec<TS> = vec![];
    let mut externs: Vec<(grammar::Ident, As)> = vec![];
    let mut i = 0;
    while i < n && i < 6 {
        let b = 7 + i * 8;
        let (kind, elem, count) = (a[b], a[b + 1], a[b + 2] as usize);
        let ty = field_type(kind, elem, count, i);
        if elem >= 13 && kind != 4 {
            externs.push((
                EXT_NAMES[i].into(),
                As::from(vec![
                    A::integer_fn("size", a[b + 5] as isize),
                    A::integer_fn("align", a[b + 6] as isize),
                ]),
            ));
        }
        let name = if a[b + 7] != 0 { FIELD_NAMES[i] } else { "_" };
        let mut st = TS::field((V::Public, name), ty);
        if a[b + 3] != 0 {
            st = st.with_attributes([A::integer_fn("address", a[b + 4] as isize)]);
        }
        stmts.push(st);
        i += 1;
    }
    let m = M::new()
        .with_extern_types(externs)
        .with_definitions([ID::new((V::Public, "T"), TD::new(stmts).with_attributes(attrs))]);
    build_one(ps, &m)
}

pub type Template = fn(&[i64]) -> Val;
pub const TEMPLATES: &[(&str, Template)] = &[("t_predefined", t_predefined), ("t_layout", t_layout)];
