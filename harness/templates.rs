//! Verification templates for pyxis.  This file is compiled *inside* a scratch copy of the crate
//! (`#[path] pub mod verif_templates;` appended to the copy's lib.rs), so that
//!  * the nightly's MIR dump contains these functions next to pyxis's own, and the symbolic
//!    interpreter can enter them with symbolic arguments, and
//!  * the very same functions, compiled natively, are what the replay binary runs on the concrete
//!    values of a solver model.
//! A template builds a `grammar::Module` with pyxis's own public builders from a flat parameter
//! vector, runs the real `SemanticState::{new, add_module, build}`, and returns a structural
//! summary (`Val`) of everything the semantic stage produced.
#![allow(dead_code, clippy::all)]

use crate::grammar::test_aliases::*;
use crate::grammar::{self, ItemPath};
use crate::semantic::types::{
    Argument, EnumDefinition, ExternValue, Function, FunctionBody, ItemCategory, ItemDefinition,
    ItemDefinitionInner, ItemState, Region, Type, TypeDefinition, Visibility,
};
use crate::semantic::{ResolvedSemanticState, SemanticState};

#[derive(Debug, Clone, PartialEq)]
pub enum Val {
    N,
    B(bool),
    U(usize),
    I(isize),
    S(String),
    L(Vec<Val>),
}

fn s(x: &str) -> Val {
    Val::S(x.to_string())
}
fn opt_s(x: &Option<String>) -> Val {
    match x {
        Some(v) => Val::S(v.clone()),
        None => Val::N,
    }
}
fn opt_u(x: Option<usize>) -> Val {
    match x {
        Some(v) => Val::U(v),
        None => Val::N,
    }
}
fn vis(v: Visibility) -> Val {
    match v {
        Visibility::Public => s("pub"),
        Visibility::Private => s("priv"),
    }
}

fn type_val(t: &Type) -> Val {
    match t {
        Type::Unresolved(_) => Val::L(vec![s("unresolved")]),
        Type::Raw(p) => Val::L(vec![s("raw"), Val::S(p.to_string())]),
        Type::ConstPointer(t) => Val::L(vec![s("const*"), type_val(t)]),
        Type::MutPointer(t) => Val::L(vec![s("mut*"), type_val(t)]),
        Type::Array(t, n) => Val::L(vec![s("array"), type_val(t), Val::U(*n)]),
        Type::Function(cc, args, ret) => {
            let mut a = vec![];
            for (name, ty) in args {
                a.push(Val::L(vec![Val::S(name.clone()), type_val(ty)]));
            }
            let r = match ret {
                Some(t) => type_val(t),
                None => Val::N,
            };
            Val::L(vec![s("fn"), s(cc.as_str()), Val::L(a), r])
        }
    }
}

fn function_val(f: &Function) -> Val {
    let body = match &f.body {
        FunctionBody::Address { address } => Val::L(vec![s("address"), Val::U(*address)]),
        FunctionBody::Field {
            field,
            function_name,
        } => Val::L(vec![s("field"), Val::S(field.clone()), Val::S(function_name.clone())]),
        FunctionBody::Vftable { function_name } => {
            Val::L(vec![s("vftable"), Val::S(function_name.clone())])
        }
    };
    let mut args = vec![];
    for a in &f.arguments {
        args.push(match a {
            Argument::ConstSelf => s("&self"),
            Argument::MutSelf => s("&mut self"),
            Argument::Field(n, t) => Val::L(vec![Val::S(n.clone()), type_val(t)]),
        });
    }
    let ret = match &f.return_type {
        Some(t) => type_val(t),
        None => Val::N,
    };
    Val::L(vec![
        s("fn"),
        vis(f.visibility),
        Val::S(f.name.clone()),
        opt_s(&f.doc),
        body,
        Val::L(args),
        ret,
        s(f.calling_convention.as_str()),
    ])
}

fn region_val(st: &ResolvedSemanticState, r: &Region) -> Val {
    Val::L(vec![
        s("region"),
        vis(r.visibility),
        opt_s(&r.name),
        opt_s(&r.doc),
        type_val(&r.type_ref),
        Val::B(r.is_base),
        opt_u(r.type_ref.size(st.type_registry())),
        opt_u(r.type_ref.alignment(st.type_registry())),
    ])
}

fn type_def_val(st: &ResolvedSemanticState, td: &TypeDefinition) -> Val {
    let mut regions = vec![];
    for r in &td.regions {
        regions.push(region_val(st, r));
    }
    let mut fns = vec![];
    for f in &td.associated_functions {
        fns.push(function_val(f));
    }
    let vft = match &td.vftable {
        None => Val::N,
        Some(v) => {
            let mut vf = vec![];
            for f in &v.functions {
                vf.push(function_val(f));
            }
            Val::L(vec![Val::L(vf), opt_s(&v.base_field), type_val(&v.type_)])
        }
    };
    Val::L(vec![
        s("type"),
        Val::L(regions),
        opt_s(&td.doc),
        Val::L(fns),
        vft,
        opt_u(td.singleton),
        Val::B(td.copyable),
        Val::B(td.cloneable),
        Val::B(td.defaultable),
        Val::B(td.packed),
    ])
}

fn enum_def_val(ed: &EnumDefinition) -> Val {
    let mut fields = vec![];
    for (n, v) in &ed.fields {
        fields.push(Val::L(vec![Val::S(n.clone()), Val::I(*v)]));
    }
    Val::L(vec![
        s("enum"),
        type_val(&ed.type_),
        opt_s(&ed.doc),
        Val::L(fields),
        opt_u(ed.singleton),
        Val::B(ed.copyable),
        Val::B(ed.cloneable),
        Val::B(ed.defaultable),
        opt_u(ed.default_index),
    ])
}

fn item_val(st: &ResolvedSemanticState, d: &ItemDefinition) -> Val {
    let cat = match d.category {
        ItemCategory::Defined => s("defined"),
        ItemCategory::Predefined => s("predefined"),
        ItemCategory::Extern => s("extern"),
    };
    let state = match &d.state {
        ItemState::Unresolved(_) => Val::L(vec![s("unresolved")]),
        ItemState::Resolved(r) => {
            let inner = match &r.inner {
                ItemDefinitionInner::Type(td) => type_def_val(st, td),
                ItemDefinitionInner::Enum(ed) => enum_def_val(ed),
            };
            Val::L(vec![s("resolved"), Val::U(r.size), Val::U(r.alignment), inner])
        }
    };
    Val::L(vec![s("item"), Val::S(d.path.to_string()), vis(d.visibility), cat, state])
}

fn extern_value_val(ev: &ExternValue) -> Val {
    Val::L(vec![
        s("extern_value"),
        vis(ev.visibility),
        Val::S(ev.name.clone()),
        type_val(&ev.type_),
        Val::U(ev.address),
    ])
}

/// Everything the semantic stage produced, in an order that does not depend on hash maps.
pub fn state_val(st: &ResolvedSemanticState) -> Val {
    let mut module_paths: Vec<ItemPath> = vec![];
    for (k, _) in st.modules() {
        module_paths.push(k.clone());
    }
    module_paths.sort();
    let mut mods = vec![];
    for mp in &module_paths {
        let m = st.modules().get(mp).unwrap();
        let mut dps: Vec<ItemPath> = vec![];
        for p in m.definition_paths() {
            dps.push(p.clone());
        }
        dps.sort();
        let mut items = vec![];
        for p in &dps {
            match st.type_registry().get(p) {
                Some(d) => {
                    if d.category != ItemCategory::Predefined {
                        items.push(item_val(st, d))
                    }
                }
                None => items.push(Val::L(vec![s("missing"), Val::S(p.to_string())])),
            }
        }
        let mut evs = vec![];
        for ev in &m.extern_values {
            evs.push(extern_value_val(ev));
        }
        // backend blocks for the rust backend, in the order pyxis keeps them (prologue, epilogue per block)
        let mut bks = vec![];
        if let Some(bs) = m.backends.get("rust") {
            for b in bs {
                bks.push(Val::L(vec![opt_s(&b.prologue), opt_s(&b.epilogue)]));
            }
        }
        let mut other_backends: Vec<String> = m.backends.keys().filter(|k| k.as_str() != "rust").cloned().collect();
        other_backends.sort();
        mods.push(Val::L(vec![
            s("module"),
            Val::S(mp.to_string()),
            opt_s(&m.doc),
            Val::L(items),
            Val::L(evs),
            Val::L(bks),
            Val::L(other_backends.into_iter().map(Val::S).collect()),
        ]));
    }
    Val::L(mods)
}

pub fn outcome(r: anyhow::Result<ResolvedSemanticState>) -> Val {
    match r {
        Ok(st) => Val::L(vec![s("ok"), state_val(&st)]),
        Err(e) => {
            let mut msgs = vec![];
            for c in e.chain() {
                msgs.push(Val::S(c.to_string()));
            }
            Val::L(vec![s("err"), Val::L(msgs)])
        }
    }
}

/// The predefined table as the registry holds it after `SemanticState::new` (name, size, alignment).
pub fn t_predefined(a: &[i64]) -> Val {
    let ps = a[0] as usize;
    let st = SemanticState::new(ps);
    let names = [
        "void", "bool", "u8", "u16", "u32", "u64", "u128", "i8", "i16", "i32", "i64", "i128", "f32",
        "f64",
    ];
    let mut out = vec![];
    for n in names {
        let d = st.type_registry.get(&ItemPath::from(n));
        match d {
            Some(d) => out.push(Val::L(vec![s(n), opt_u(d.size()), opt_u(d.alignment())])),
            None => out.push(Val::L(vec![s(n), Val::N, Val::N])),
        }
    }
    Val::L(out)
}

thread_local! {
    /// when set (native replay binary, `--emit <dir>`), every successful single-module build also writes its bindings
    /// with the real backend (`backends::rust::write_module`) into this directory
    pub static EMIT_DIR: std::cell::RefCell<Option<std::path::PathBuf>> = std::cell::RefCell::new(None);
}

#[cfg(pyxis_verif)]
thread_local! {
    static EMIT_COUNT: std::cell::Cell<usize> = std::cell::Cell::new(0);
}
#[cfg(pyxis_verif)]
fn maybe_emit(st: &ResolvedSemanticState) {
    let dir = EMIT_DIR.with(|d| d.borrow().clone());
    if let Some(dir) = dir {
        // every build of a product template is also kept on its own (`.builds/<n>/`), so that the files of two builds can be compared
        let n = EMIT_COUNT.with(|c| {
            let v = c.get();
            c.set(v + 1);
            v
        });
        let own = dir.join(".builds").join(n.to_string());
        let _ = std::fs::create_dir_all(&own);
        for (key, module) in st.modules() {
            if let Err(e) = crate::backends::rust::write_module(&dir, key, st, module) {
                eprintln!("EMIT-ERROR {e:?}");
            }
            let _ = crate::backends::rust::write_module(&own, key, st, module);
        }
    }
}
#[cfg(not(pyxis_verif))]
fn maybe_emit(_st: &ResolvedSemanticState) {}

fn build_one(ps: usize, m: &M) -> Val {
    let mut st = SemanticState::new(ps);
    match st.add_module(m, &IP::from("m")) {
        Ok(()) => {}
        Err(e) => {
            let mut msgs = vec![];
            for c in e.chain() {
                msgs.push(Val::S(c.to_string()));
            }
            return Val::L(vec![s("err"), Val::L(msgs)]);
        }
    }
    let r = st.build();
    if let Ok(st) = &r {
        maybe_emit(st);
    }
    outcome(r)
}

const SCALARS: [&str; 13] = [
    "u8", "u16", "u32", "u64", "u128", "i8", "i16", "i32", "i64", "i128", "bool", "f32", "f64",
];
const FIELD_NAMES: [&str; 6] = ["f0", "f1", "f2", "f3", "f4", "f5"];
const EXT_NAMES: [&str; 6] = ["X0", "X1", "X2", "X3", "X4", "X5"];

/// One field type from (kind, elem, count):
///  kind 0: elem by value; 1: *const elem; 2: *mut elem; 3: [elem; count]; 4: unknown<count>;
///  5: [*const elem; count]
/// elem < 13: the built-in scalar of that index; elem >= 13: the extern type X<i> of this field.
fn field_type(kind: i64, elem: i64, count: usize, i: usize) -> T {
    let base = if elem >= 0 && (elem as usize) < SCALARS.len() {
        T::ident(SCALARS[elem as usize])
    } else {
        T::ident(EXT_NAMES[i])
    };
    match kind {
        0 => base,
        1 => base.const_pointer(),
        2 => base.mut_pointer(),
        3 => base.array(count),
        4 => T::unknown(count),
        _ => base.const_pointer().array(count),
    }
}

/// Layout template: one type `m::T` with `n` fields (n <= 6).
/// a = [ps, n, has_size, size, has_align, align, packed,
///      then per field i (stride 8): kind, elem, count, has_addr, addr, ext_size, ext_align, named]
pub fn t_layout(a: &[i64]) -> Val {
    let ps = a[0] as usize;
    let n = a[1] as usize;
    // a[6]: 0 = not packed; 1 = `packed` written after size / align; 2 = `packed` written before them
    let mut attrs: Vec<A> = vec![];
    if a[6] == 2 {
        attrs.push(A::packed());
    }
    if a[2] != 0 {
        attrs.push(A::integer_fn("size", a[3] as isize));
    }
    if a[4] != 0 {
        attrs.push(A::integer_fn("align", a[5] as isize));
    }
    if a[6] != 0 && a[6] != 2 {
        attrs.push(A::packed());
    }
    let mut stmts: Vec<TS> = vec![];
    let mut externs: Vec<(grammar::Ident, As)> = vec![];
    let mut i = 0;
    while i < n && i < 6 {
        let b = 7 + i * 8;
        let (kind, elem, count) = (a[b], a[b + 1], a[b + 2] as usize);
        let ty = field_type(kind, elem, count, i);
        if elem >= 13 && kind != 4 {
            externs.push((
                EXT_NAMES[i].into(),
                As::from(vec![
                    A::integer_fn("size", a[b + 5] as isize),
                    A::integer_fn("align", a[b + 6] as isize),
                ]),
            ));
        }
        let name = if a[b + 7] != 0 { FIELD_NAMES[i] } else { "_" };
        let mut st = TS::field((V::Public, name), ty);
        if a[b + 3] != 0 {
            st = st.with_attributes([A::integer_fn("address", a[b + 4] as isize)]);
        }
        stmts.push(st);
        i += 1;
    }
    let m = M::new()
        .with_extern_types(externs)
        .with_definitions([ID::new((V::Public, "T"), TD::new(stmts).with_attributes(attrs))]);
    build_one(ps, &m)
}


// ------------------------------------------------------------------------------------------------
// t_enum: one enum `m::E` (C08).
// a = [ps, base, n, defaultable, copyable, cloneable, has_singleton, singleton,
//      then per variant i (stride 3): has_value, value, is_default]      (n <= 8)
// base: 0..7 = u8,u16,u32,u64,i8,i16,i32,i64 ; 8 = *const u8 ; 9 = undefined name ; 10 = f32
const ENUM_BASES: [&str; 8] = ["u8", "u16", "u32", "u64", "i8", "i16", "i32", "i64"];
const VARIANT_NAMES: [&str; 8] = ["V0", "V1", "V2", "V3", "V4", "V5", "V6", "V7"];
pub fn t_enum(a: &[i64]) -> Val {
    let ps = a[0] as usize;
    let base = a[1];
    let n = a[2] as usize;
    let ty = if base >= 0 && base < 8 {
        T::ident(ENUM_BASES[base as usize])
    } else if base == 8 {
        T::ident("u8").const_pointer()
    } else if base == 9 {
        T::ident("Nope")
    } else {
        T::ident("f32")
    };
    let mut attrs: Vec<A> = vec![];
    if a[3] != 0 {
        attrs.push(A::defaultable());
    }
    if a[4] != 0 {
        attrs.push(A::copyable());
    }
    if a[5] != 0 {
        attrs.push(A::cloneable());
    }
    if a[6] != 0 {
        attrs.push(A::integer_fn("singleton", a[7] as isize));
    }
    let mut stmts: Vec<ES> = vec![];
    let mut i = 0;
    while i < n && i < 8 {
        let b = 8 + i * 3;
        let mut st = if a[b] != 0 {
            ES::field_with_expr(VARIANT_NAMES[i], E::IntLiteral(a[b + 1] as isize))
        } else {
            ES::field(VARIANT_NAMES[i])
        };
        if a[b + 2] != 0 {
            st = st.with_attributes([A::default()]);
        }
        stmts.push(st);
        i += 1;
    }
    let m = M::new().with_definitions([ID::new((V::Public, "E"), ED::new(ty, stmts, attrs))]);
    build_one(ps, &m)
}

// ------------------------------------------------------------------------------------------------
// shared helpers for function-bearing templates
const ARG_NAMES: [&str; 6] = ["a0", "a1", "a2", "a3", "a4", "a5"];
const FN_NAMES: [&str; 6] = ["g0", "g1", "g2", "g3", "g4", "g5"];
const CC_NAMES: [&str; 8] = ["C", "cdecl", "stdcall", "fastcall", "thiscall", "vectorcall", "system", "bogus"];

/// type choice for arguments / return types: 0 u32, 1 u64, 2 *const T, 3 *mut u8, 4 undefined name, 5 bool, 6 *const Nope,
/// 7 *mut *const T, 8 *const *mut u8 (pointer chains whose levels differ in mutability)
fn arg_type(k: i64) -> T {
    match k {
        0 => T::ident("u32"),
        1 => T::ident("u64"),
        2 => T::ident("T").const_pointer(),
        3 => T::ident("u8").mut_pointer(),
        4 => T::ident("Nope"),
        5 => T::ident("bool"),
        7 => T::ident("T").const_pointer().mut_pointer(),
        8 => T::ident("u8").mut_pointer().const_pointer(),
        _ => T::ident("Nope").const_pointer(),
    }
}

/// one function from 8 parameters: [recv, nargs, t0, t1, t2, ret(0 none, k+1), cc(0 absent, i+1), vis]
fn make_function(name: &str, p: &[i64], attrs: Vec<A>) -> F {
    let mut args: Vec<Ar> = vec![];
    match p[0] {
        1 => args.push(Ar::ConstSelf),
        2 => args.push(Ar::MutSelf),
        _ => {}
    }
    let nargs = p[1] as usize;
    let mut j = 0;
    while j < nargs && j < 3 {
        args.push(Ar::named(ARG_NAMES[j], arg_type(p[2 + j])));
        j += 1;
    }
    let mut attrs = attrs;
    if p[6] != 0 {
        let idx = (p[6] - 1) as usize;
        let cc = A::calling_convention(CC_NAMES[if idx < 8 { idx } else { 7 }]);
        // attribute order varies with the receiver: `&mut self` functions carry the convention *before* address/index
        if p[0] == 2 {
            attrs.insert(0, cc);
        } else {
            attrs.push(cc);
        }
    }
    let vis = if p[7] != 0 { V::Public } else { V::Private };
    let mut f = F::new((vis, name), args).with_attributes(attrs);
    if p[5] != 0 {
        f = f.with_return_type(arg_type(p[5] - 1));
    }
    f
}

// t_impl: `type T { a: u32 }` with one impl function (C05, C16).
// a = [ps, has_address, address, has_index, then 8 function parameters]
pub fn t_impl(a: &[i64]) -> Val {
    let ps = a[0] as usize;
    let mut attrs: Vec<A> = vec![];
    if a[1] != 0 {
        attrs.push(A::integer_fn("address", a[2] as isize));
    }
    if a[3] != 0 {
        attrs.push(A::integer_fn("index", 0));
    }
    let f = make_function("g0", &a[4..12], attrs);
    let m = M::new()
        .with_definitions([ID::new(
            (V::Public, "T"),
            TD::new([TS::field((V::Public, "a"), T::ident("u32"))]).with_attributes([A::align(4)]),
        )])
        .with_impls([FB::new("T", [f])]);
    build_one(ps, &m)
}

// t_impl6: `type T { a: u32 }` with one address-bound impl function of up to 6 parameters (C05: parameter order and types for longer lists).
// a = [ps, address, recv, nargs, t0..t5 (arg_type codes), ret(0 none, k+1), name_kind, packed]
//   name_kind: 0 parameters a0..a5; 1 the first is named `this`; 2 the first is named `f`; 3 the last is named `f`
//   (`this` and `f` are identifiers the emitted wrapper uses itself)
fn arg_name(kind: i64, j: usize, n: usize) -> &'static str {
    match kind {
        1 if j == 0 => "this",
        2 if j == 0 => "f",
        3 if j + 1 == n => "f",
        _ => ARG_NAMES[j],
    }
}
pub fn t_impl6(a: &[i64]) -> Val {
    let ps = a[0] as usize;
    let mut args: Vec<Ar> = vec![];
    match a[2] {
        1 => args.push(Ar::ConstSelf),
        2 => args.push(Ar::MutSelf),
        _ => {}
    }
    let nargs = a[3] as usize;
    let mut j = 0;
    while j < nargs && j < 6 {
        args.push(Ar::named(arg_name(a[11], j, if nargs < 6 { nargs } else { 6 }), arg_type(a[4 + j])));
        j += 1;
    }
    let mut f = F::new((V::Public, "g0"), args).with_attributes([A::integer_fn("address", a[1] as isize)]);
    if a[10] != 0 {
        f = f.with_return_type(arg_type(a[10] - 1));
    }
    // a[12]: the owner type is #[packed] (a byte, then the u32)
    let packed = a.len() > 12 && a[12] != 0;
    let td = if packed {
        TD::new([TS::field((V::Public, "b"), T::ident("u8")), TS::field((V::Public, "a"), T::ident("u32"))]).with_attributes([A::packed()])
    } else {
        TD::new([TS::field((V::Public, "a"), T::ident("u32"))]).with_attributes([A::align(4)])
    };
    let m = M::new().with_definitions([ID::new((V::Public, "T"), td)]).with_impls([FB::new("T", [f])]);
    build_one(ps, &m)
}

// t_privbase: derived type whose #[base] fields are public or private (C07: a public base function stays callable on the derived type
// whatever the visibility of the field it is reached through).
//   A { [vftable { pub fn f0(&self); }] pub ax: *const u8 }  impl A { #[address(256)] pub fn k(&self) -> u32; }
//   B { [vftable { pub fn g0(&self, x: u32) -> u32; }] pub bx: *const u8 }  impl B { #[address(512)] pub fn kb(&mut self); }
//   D { #[base] [pub] a: A, [#[base] [pub] b: B,] pub dx: *const u8 }
// a = [ps, a_field_private, b_field_private, two_bases, a_vft, b_vft]
pub fn t_privbase(a: &[i64]) -> Val {
    let ps = a[0] as usize;
    let p8 = || T::ident("u8").const_pointer();
    let vis = |private: i64| if private != 0 { V::Private } else { V::Public };
    let mut a_stmts: Vec<TS> = vec![];
    if a[4] != 0 {
        a_stmts.push(TS::vftable([F::new((V::Public, "f0"), [Ar::ConstSelf])]));
    }
    a_stmts.push(TS::field((V::Public, "ax"), p8()));
    let mut b_stmts: Vec<TS> = vec![];
    if a[5] != 0 {
        b_stmts.push(TS::vftable([F::new((V::Public, "g0"), [Ar::ConstSelf, Ar::named("x", T::ident("u32"))])
            .with_return_type(T::ident("u32"))]));
    }
    b_stmts.push(TS::field((V::Public, "bx"), p8()));
    let mut d_stmts: Vec<TS> = vec![TS::field((vis(a[1]), "a"), T::ident("A")).with_attributes([A::base()])];
    if a[3] != 0 {
        d_stmts.push(TS::field((vis(a[2]), "b"), T::ident("B")).with_attributes([A::base()]));
    }
    d_stmts.push(TS::field((V::Public, "dx"), p8()));
    let m = M::new()
        .with_definitions([
            ID::new((V::Public, "A"), TD::new(a_stmts)),
            ID::new((V::Public, "B"), TD::new(b_stmts)),
            ID::new((V::Public, "D"), TD::new(d_stmts)),
        ])
        .with_impls([
            FB::new(
                "A",
                [F::new((V::Public, "k"), [Ar::ConstSelf])
                    .with_attributes([A::integer_fn("address", 256)])
                    .with_return_type(T::ident("u32"))],
            ),
            FB::new("B", [F::new((V::Public, "kb"), [Ar::MutSelf]).with_attributes([A::integer_fn("address", 512)])]),
        ]);
    build_one(ps, &m)
}

// t_vftargs: `type T { vftable { [#[index(idx)]] pub fn v(recv, 0..4 parameters) -> u32; }, x: *const u8 }` (C04: the wrapper passes the
// receiver and then the declared arguments, whatever they are called).
// a = [ps, recv (1 &self, 2 &mut self), nargs, t0..t3 (arg_type codes), name_kind (see t_impl6), has_index, index, packed]
pub fn t_vftargs(a: &[i64]) -> Val {
    let ps = a[0] as usize;
    let mut args: Vec<Ar> = vec![if a[1] == 2 { Ar::MutSelf } else { Ar::ConstSelf }];
    let nargs = a[2] as usize;
    let mut j = 0;
    while j < nargs && j < 4 {
        args.push(Ar::named(arg_name(a[7], j, if nargs < 4 { nargs } else { 4 }), arg_type(a[3 + j])));
        j += 1;
    }
    let mut f = F::new((V::Public, "v"), args).with_return_type(T::ident("u32"));
    if a[8] != 0 {
        f = f.with_attributes([A::integer_fn("index", a[9] as isize)]);
    }
    let td = TD::new([TS::vftable([f]), TS::field((V::Public, "x"), T::ident("u8").const_pointer())]);
    let td = if a.len() > 10 && a[10] != 0 { td.with_attributes([A::packed()]) } else { td };
    let m = M::new().with_definitions([ID::new((V::Public, "T"), td)]);
    build_one(ps, &m)
}

// t_names: every position in which a description can mention a type name (C10: an undefined name in any of them ends the build with
// an error; a build never succeeds with a reference dropped).
//   module n: type X { y: u32 }                 (m imports n only when imports_n != 0)
//   module m: type T1 { x: u32 }
//             type T0 { f: K_field }            impl T0 { #[address(64)] pub fn g(&self, p: K_param) -> K_ret; }
//             type V { vftable { pub fn v(&self, q: K_vparam) -> K_vret; } }
//             enum E: K_enum { A }              extern ev: K_ev  @ 128
// a = [ps, imports_n, k_field, k_enum, k_param, k_ret, k_vparam, k_vret, k_ev]
//   kinds: 0 u32, 1 T1, 2 *const T1, 3 Nope (undefined), 4 *const Nope, 5 X (only visible with the import), 6 *const X; ret kinds: 7 = no return type
fn name_kind(k: i64) -> T {
    match k {
        0 => T::ident("u32"),
        1 => T::ident("T1"),
        2 => T::ident("T1").const_pointer(),
        3 => T::ident("Nope"),
        4 => T::ident("Nope").const_pointer(),
        5 => T::ident("X"),
        _ => T::ident("X").const_pointer(),
    }
}
pub fn t_names(a: &[i64]) -> Val {
    let ps = a[0] as usize;
    let mut g = F::new((V::Public, "g"), [Ar::ConstSelf, Ar::named("p", name_kind(a[4]))]).with_attributes([A::integer_fn("address", 64)]);
    if a[5] != 7 {
        g = g.with_return_type(name_kind(a[5]));
    }
    let mut v = F::new((V::Public, "v"), [Ar::ConstSelf, Ar::named("q", name_kind(a[6]))]);
    if a[7] != 7 {
        v = v.with_return_type(name_kind(a[7]));
    }
    let mut mm = M::new()
        .with_definitions([
            ID::new((V::Public, "T1"), TD::new([TS::field((V::Public, "x"), T::ident("u32"))])),
            ID::new((V::Public, "T0"), TD::new([TS::field((V::Public, "f"), name_kind(a[2]))])),
            ID::new((V::Public, "V"), TD::new([TS::vftable([v])])),
            ID::new((V::Public, "E"), ED::new(name_kind(a[3]), [ES::field("A")], [])),
        ])
        .with_impls([FB::new("T0", [g])])
        .with_extern_values([EV::new(V::Public, "ev", name_kind(a[8]), [A::integer_fn("address", 128)])]);
    if a[1] != 0 {
        mm = mm.with_uses([IP::from("n")]);
    }
    let mn = M::new().with_definitions([ID::new((V::Public, "X"), TD::new([TS::field((V::Public, "y"), T::ident("u32"))]))]);
    let mut st = SemanticState::new(ps);
    if let Err(e) = st.add_module(&mm, &IP::from("m")) {
        return outcome(Err(e));
    }
    if let Err(e) = st.add_module(&mn, &IP::from("n")) {
        return outcome(Err(e));
    }
    outcome(st.build())
}

// t_marks: visibility, marker attributes, packing and doc comments on every item kind (C17).
//   [m_doc] module m:
//     [t_doc] [pub] type T [copyable] [cloneable] [defaultable] (packed | align(8)) { [fa_doc] [pub] a: u64, [pub] b: u64 }
//     impl T { [g_doc] #[address(64)] [pub] fn g(&self) -> u32; }
//     pub type V { vftable { [v_doc] [pub] fn v(&self); } }
//     [e_doc] [pub] enum E: u32 [copyable] [cloneable] [defaultable] { A, [#[default]] B }     (the marker is there iff defaultable)
// a = [ps, t_vis, fa_vis, fb_vis, g_vis, t_copyable, t_cloneable, t_defaultable, t_packed, t_doc, fa_doc, g_doc,
//      e_vis, e_copyable, e_cloneable, e_defaultable, e_doc, v_vis, v_doc, m_doc, d_base_vis]            (*_doc: number of doc lines, 0..2; 3 = three lines with an empty middle line)
//     pub type D { #[base] [pub] t: T }
fn doc_attrs(what: &str, n: i64) -> Vec<A> {
    let mut out = vec![];
    let mut i = 0;
    // n == 3: three lines, the middle one empty (`///` on its own between two paragraphs)
    while i < n && i < 3 {
        if n == 3 && i == 1 {
            out.push(A::doc(""));
        } else {
            out.push(A::doc(&format!(" {} doc {}", what, i)));
        }
        i += 1;
    }
    out
}
pub fn t_marks(a: &[i64]) -> Val {
    let ps = a[0] as usize;
    let vis = |x: i64| if x != 0 { V::Public } else { V::Private };
    let mut t_attrs = doc_attrs("T", a[9]);
    if a[5] != 0 {
        t_attrs.push(A::copyable());
    }
    if a[6] != 0 {
        t_attrs.push(A::cloneable());
    }
    if a[7] != 0 {
        t_attrs.push(A::defaultable());
    }
    t_attrs.push(if a[8] != 0 { A::packed() } else { A::align(8) });
    let td = TD::new([
        TS::field((vis(a[2]), "a"), T::ident("u64")).with_attributes(doc_attrs("a", a[10])),
        TS::field((vis(a[3]), "b"), T::ident("u64")),
    ])
    .with_attributes(t_attrs);
    let g = F::new((vis(a[4]), "g"), [Ar::ConstSelf])
        .with_attributes({
            let mut at = doc_attrs("g", a[11]);
            at.push(A::integer_fn("address", 64));
            at
        })
        .with_return_type(T::ident("u32"));
    let v = F::new((vis(a[17]), "v"), [Ar::ConstSelf]).with_attributes(doc_attrs("v", a[18]));
    let mut e_attrs = doc_attrs("E", a[16]);
    if a[13] != 0 {
        e_attrs.push(A::copyable());
    }
    if a[14] != 0 {
        e_attrs.push(A::cloneable());
    }
    if a[15] != 0 {
        e_attrs.push(A::defaultable());
    }
    let b = if a[15] != 0 { ES::field("B").with_attributes([A::default()]) } else { ES::field("B") };
    let m = M::new()
        .with_attributes(doc_attrs("module", a[19]))
        .with_definitions([
            ID::new((vis(a[1]), "T"), td),
            // a derived type: the public function of T is re-exposed (with its doc) whatever the visibility of the base field (a[20])
            ID::new(
                (V::Public, "D"),
                TD::new([TS::field((vis(if a.len() > 20 { a[20] } else { 1 }), "t"), T::ident("T")).with_attributes([A::base()])]),
            ),
            ID::new((V::Public, "V"), TD::new([TS::vftable([v])])),
            ID::new((vis(a[12]), "E"), ED::new(T::ident("u32"), [ES::field("A"), b], e_attrs)),
        ])
        .with_impls([FB::new("T", [g])]);
    build_one(ps, &m)
}

// t_implname: impl block of T whose function names may already be taken (C05: every declared #[address] function is emitted, or the
// description is rejected).
//   type Bz { x: u32 }  impl Bz { #[address(256)] [pub] fn <bname>(&self) -> u32; }         (base_kind != 0)
//   type T { [vftable { pub fn <vname>(&self); }]  (#[base] pub b: Bz | pub a2: u32),  pub a: u32 }
//   impl T { #[address(addr0)] pub fn g0(recv0, a0: u32) -> u32;  [#[address(addr1)] pub fn (g1 | g0)(recv1) -> u64;] }
// a = [ps, addr0, addr1, n_impl, second_same_name, vft_kind (0 none, 1 g0, 2 g1, 3 h), base_kind (0 none, 1 pub g0, 2 pub g1, 3 private g0, 4 pub h),
//      recv0, recv1, first_internal]
pub fn t_implname(a: &[i64]) -> Val {
    let ps = a[0] as usize;
    let recv = |k: i64| -> Vec<Ar> {
        match k {
            1 => vec![Ar::ConstSelf],
            2 => vec![Ar::MutSelf],
            _ => vec![],
        }
    };
    let mut defs: Vec<ID> = vec![];
    let mut impls: Vec<FB> = vec![];
    if a[6] != 0 {
        defs.push(ID::new(
            (V::Public, "Bz"),
            TD::new([TS::field((V::Public, "x"), T::ident("u32"))]).with_attributes([A::align(4)]),
        ));
        let bname = match a[6] {
            1 | 3 => "g0",
            2 => "g1",
            _ => "h",
        };
        let bvis = if a[6] == 3 { V::Private } else { V::Public };
        impls.push(FB::new(
            "Bz",
            [F::new((bvis, bname), [Ar::ConstSelf])
                .with_attributes([A::integer_fn("address", 256)])
                .with_return_type(T::ident("u32"))],
        ));
    }
    let mut stmts: Vec<TS> = vec![];
    if a[5] != 0 {
        let vname = match a[5] {
            1 => "g0",
            2 => "g1",
            _ => "h",
        };
        stmts.push(TS::vftable([F::new((V::Public, vname), [Ar::ConstSelf])]));
    }
    if a[6] != 0 {
        stmts.push(TS::field((V::Public, "b"), T::ident("Bz")).with_attributes([A::base()]));
    } else {
        stmts.push(TS::field((V::Public, "a2"), T::ident("u32")));
    }
    stmts.push(TS::field((V::Public, "a"), T::ident("u32")));
    let t_align = if a[5] != 0 { ps } else { 4 };
    defs.push(ID::new((V::Public, "T"), TD::new(stmts).with_attributes([A::align(t_align)])));
    let mut a0 = recv(a[7]);
    a0.push(Ar::named("a0", T::ident("u32")));
    // a[9]: the first function is internal (`_g0`): pyxis emits no wrapper for it, the following ones keep their own signature and convention
    let first_name = if a.len() > 9 && a[9] != 0 { "_g0" } else { "g0" };
    let mut fns: Vec<F> = vec![F::new((V::Public, first_name), a0)
        .with_attributes([A::integer_fn("address", a[1] as isize)])
        .with_return_type(T::ident("u32"))];
    if a[3] >= 2 {
        fns.push(
            F::new((V::Public, if a[4] != 0 { "g0" } else { "g1" }), recv(a[8]))
                .with_attributes([A::integer_fn("address", a[2] as isize)])
                .with_return_type(T::ident("u64")),
        );
    }
    impls.push(FB::new("T", fns));
    let m = M::new().with_definitions(defs).with_impls(impls);
    build_one(ps, &m)
}

// t_vft: `type T { vftable { m functions }, x: <ptr-sized> }` (C04, C16).
// a = [ps, m, has_vsize, vsize, then per function (stride 10): has_index, index, 8 function parameters]   (m <= 4)
pub fn t_vft(a: &[i64]) -> Val {
    let ps = a[0] as usize;
    let m_ = a[1] as usize;
    let mut fns: Vec<F> = vec![];
    let mut i = 0;
    while i < m_ && i < 4 {
        let b = 4 + i * 10;
        let mut attrs: Vec<A> = vec![];
        if a[b] != 0 {
            attrs.push(A::integer_fn("index", a[b + 1] as isize));
        }
        fns.push(make_function(FN_NAMES[i], &a[b + 2..b + 10], attrs));
        i += 1;
    }
    let mut vst = TS::vftable(fns);
    if a[2] != 0 {
        vst = vst.with_attributes([A::integer_fn("size", a[3] as isize)]);
    }
    let m = M::new().with_definitions([ID::new(
        (V::Public, "T"),
        TD::new([vst, TS::field((V::Public, "x"), T::ident("u8").const_pointer())]),
    )]);
    build_one(ps, &m)
}

// ------------------------------------------------------------------------------------------------
// t_graph: k types T0..T{k-1} in module `m` (and optionally some in module `n`, imported by `m`), each with up to two
// fields whose type is chosen per field (C10, C09, C02).
// a = [ps, k, order, per type i (stride 7): in_n, nf, (kind, target) x 2, align]
// field kind: 0 u32, 1 T_j by value, 2 *const T_j, 3 [T_j; 2], 4 #[base] T_j, 5 undefined name, 6 u64, 7 enum E (u32), 8 [T_j; 0]
// order: definitions of module m are emitted rotated by `order`; order >= 4: the modules import each other's types by path, not the module.
const TYPE_NAMES: [&str; 5] = ["T0", "T1", "T2", "T3", "T4"];
const GF_NAMES: [&str; 2] = ["p", "q"];
pub fn t_graph(a: &[i64]) -> Val {
    let ps = a[0] as usize;
    let k = a[1] as usize;
    let order = a[2] as usize;
    let mut defs_m: Vec<ID> = vec![];
    let mut defs_n: Vec<ID> = vec![];
    let mut i = 0;
    while i < k && i < 5 {
        let b = 3 + i * 7;
        let nf = a[b + 1] as usize;
        let mut stmts: Vec<TS> = vec![];
        let mut j = 0;
        while j < nf && j < 2 {
            let kind = a[b + 2 + j * 2];
            let tgt = a[b + 3 + j * 2] as usize;
            let tn = TYPE_NAMES[if tgt < 5 { tgt } else { 0 }];
            let ty = match kind {
                0 => T::ident("u32"),
                1 | 4 => T::ident(tn),
                2 => T::ident(tn).const_pointer(),
                3 => T::ident(tn).array(2),
                5 => T::ident("Nope"),
                6 => T::ident("u64"),
                8 => T::ident(tn).array(0),
                _ => T::ident("E"),
            };
            let mut st = TS::field((V::Public, GF_NAMES[j]), ty);
            if kind == 4 {
                st = st.with_attributes([A::base()]);
            }
            stmts.push(st);
            j += 1;
        }
        let mut td = TD::new(stmts);
        if a[b + 6] != 0 {
            td = td.with_attributes([A::integer_fn("align", a[b + 6] as isize)]);
        }
        let def = ID::new((V::Public, TYPE_NAMES[i]), td);
        if a[b] != 0 {
            defs_n.push(def);
        } else {
            defs_m.push(def);
        }
        i += 1;
    }
    defs_m.push(ID::new(
        (V::Public, "E"),
        ED::new(T::ident("u32"), [ES::field("A"), ES::field("B")], []),
    ));
    // rotate module m's definitions
    let len = defs_m.len();
    let mut rotated: Vec<ID> = vec![];
    let mut r = 0;
    while r < len {
        rotated.push(defs_m[(r + order) % len].clone());
        r += 1;
    }
    // module n always defines `T0x` and m imports it by name: a type import whose name merely starts with another
    // type's name must not capture lookups of that other name
    defs_n.push(ID::new(
        (V::Public, "T0x"),
        TD::new([TS::field((V::Public, "s"), T::ident(if ps == 8 { "u64" } else { "u32" }))]),
    ));
    // order >= 4: the two modules import each other's *types* by full path instead of importing the module
    let type_imports = order >= 4;
    let (uses_m, uses_n): (Vec<IP>, Vec<IP>) = if type_imports {
        (
            vec![IP::from("n::T1"), IP::from("n::T3"), IP::from("n::T0x")],
            vec![IP::from("m::T0"), IP::from("m::T2"), IP::from("m::T4"), IP::from("m::E")],
        )
    } else {
        (vec![IP::from("n"), IP::from("n::T0x")], vec![IP::from("m")])
    };
    let mm = M::new().with_uses(uses_m).with_definitions(rotated);
    let mn = M::new().with_uses(uses_n).with_definitions(defs_n);
    let mut st = SemanticState::new(ps);
    // module addition order is part of `order` as well
    let first_n = order % 2 == 1;
    let r1 = if first_n { st.add_module(&mn, &IP::from("n")) } else { st.add_module(&mm, &IP::from("m")) };
    if let Err(e) = r1 {
        return outcome(Err(e));
    }
    let r2 = if first_n { st.add_module(&mm, &IP::from("m")) } else { st.add_module(&mn, &IP::from("n")) };
    if let Err(e) = r2 {
        return outcome(Err(e));
    }
    outcome(st.build())
}

// ------------------------------------------------------------------------------------------------
// t_scope: which definition does the name `S` (or a built-in name) denote in module `a`? (C11)
// a = [ps, name_kind(0 => "S", 1 => "u32"), def_a, def_b, def_xy, def_c, nuses, then uses u0..u3]
// def_*: 1 => that module defines the name (sizes: a:8, b:12, x::y:16, c:20 bytes via extern types of that size, align 4)
// use codes: 0 none, 1 `use b::S`, 2 `use x::y::S`, 3 `use b` (module), 4 `use x::y`, 5 `use c::S`, 6 `use c`, 7 `use zz` (no such module),
//            8 `use b::S2` (another type of b whose name starts with the looked-up name)
pub fn t_scope(a: &[i64]) -> Val {
    let ps = a[0] as usize;
    let name = if a[1] != 0 { "u32" } else { "S" };
    let ext = |size: isize| -> Vec<(grammar::Ident, As)> {
        vec![(name.into(), As::from(vec![A::integer_fn("size", size), A::integer_fn("align", 4)]))]
    };
    let mut uses: Vec<IP> = vec![];
    let nuses = a[6] as usize;
    let mut i = 0;
    while i < nuses && i < 4 {
        match a[7 + i] {
            1 => uses.push(IP::from("b").join(name.into())),
            2 => uses.push(IP::from("x::y").join(name.into())),
            3 => uses.push(IP::from("b")),
            4 => uses.push(IP::from("x::y")),
            5 => uses.push(IP::from("c").join(name.into())),
            6 => uses.push(IP::from("c")),
            7 => uses.push(IP::from("zz")),
            8 => uses.push(IP::from("b").join(format!("{}2", name).as_str().into())),
            _ => {}
        }
        i += 1;
    }
    let mut ma = M::new()
        .with_uses(uses)
        .with_definitions([ID::new(
            (V::Public, "R"),
            TD::new([TS::field((V::Public, "f"), T::ident(name))]).with_attributes([A::align(4)]),
        )])
        // the same name used as the type of an extern value and behind a pointer in a function signature
        .with_extern_values([EV::new(V::Public, "ev", T::ident(name), [A::integer_fn("address", 64)])])
        .with_impls([FB::new(
            "R",
            [F::new((V::Public, "g"), [Ar::ConstSelf, Ar::named("p", T::ident(name).const_pointer())])
                .with_attributes([A::integer_fn("address", 128)])],
        )]);
    if a[2] != 0 {
        ma = ma.with_extern_types(ext(8));
    }
    let mut st = SemanticState::new(ps);
    let mut mods: Vec<(M, &str)> = vec![(ma, "a")];
    // b always declares `<name>2` (size 24): importing it by name (use code 8) must never capture `<name>`
    let name2 = format!("{}2", name);
    let mut b_ext: Vec<(grammar::Ident, As)> = vec![(
        name2.as_str().into(),
        As::from(vec![A::integer_fn("size", 24), A::integer_fn("align", 4)]),
    )];
    if a[3] == 1 {
        b_ext.extend(ext(12));
    }
    let mut mb = M::new().with_extern_types(b_ext);
    if a[3] == 2 {
        // def_b == 2: b's definition is a *private* type of the same size and alignment (visibility plays no part in name resolution)
        mb = mb.with_definitions([ID::new(
            (V::Private, name),
            TD::new([
                TS::field((V::Public, "p0"), T::ident("u32")),
                TS::field((V::Public, "p1"), T::ident("u32")),
                TS::field((V::Public, "p2"), T::ident("u32")),
            ])
            .with_attributes([A::align(4)]),
        )]);
    }
    mods.push((mb, "b"));
    if a[4] != 0 {
        mods.push((M::new().with_extern_types(ext(16)), "x::y"));
    } else {
        mods.push((M::new(), "x::y"));
    }
    if a[5] != 0 {
        mods.push((M::new().with_extern_types(ext(20)), "c"));
    } else {
        mods.push((M::new(), "c"));
    }
    for (m, p) in &mods {
        if let Err(e) = st.add_module(m, &IP::from(*p)) {
            return outcome(Err(e));
        }
    }
    outcome(st.build())
}

// ------------------------------------------------------------------------------------------------
// t_inherit: bases A and B, derived D (bases: a: A [, b: B]), and DD (base d: D)  (C06, C07, C04, C16)
// a = [ps, a_vft, b_vft, two_bases, d_block, mutation, dd_present, dd_block, a_impl, b_impl, d_impl, clash, a_fn_vis, cc, d_priv_k, b_is_a, dd_two]
//  a_vft/b_vft: base has a vftable block with functions f0(&self, x: u32) -> u32 and f1(&mut self)
//  d_block: 0 none; 1 repeats A's two functions (+ own `h`); 2 only own `h` (no base prefix)
//  mutation (applied to D's copy of f0 when d_block == 1): 0 none, 1 rename, 2 parameter type, 3 return type,
//      4 receiver mutability, 5 calling convention, 6 drop f1 (shorter table), 7 extra parameter, 8 swap f0/f1, 9 no own function (exact repeat)
//  *_impl: the type has an impl block with `pub fn k(&self)`; (b uses the same name `k` when clash != 0, else `kb`)
//  a_fn_vis: visibility of A's impl function (0 private)
//  cc: calling convention attribute on A's f0 (0 absent, i+1 = CC_NAMES[i])
pub fn t_inherit(a: &[i64]) -> Val {
    let ps = a[0] as usize;
    let cc_attr = |v: i64| -> Vec<A> {
        if v != 0 {
            let idx = (v - 1) as usize;
            vec![A::calling_convention(CC_NAMES[if idx < 8 { idx } else { 7 }])]
        } else {
            vec![]
        }
    };
    let f0 = |name: &str, arg_ty: &str, ret: Option<&str>, mut_self: bool, extra: bool, cc: i64| -> F {
        let mut args = vec![if mut_self { Ar::MutSelf } else { Ar::ConstSelf }, Ar::named("x", T::ident(arg_ty))];
        if extra {
            args.push(Ar::named("y", T::ident("u32")));
        }
        let f = F::new((V::Public, name), args).with_attributes(cc_attr(cc));
        match ret {
            Some(r) => f.with_return_type(T::ident(r)),
            None => f,
        }
    };
    let f1 = || F::new((V::Public, "f1"), [Ar::MutSelf]);
    let base_vft = |cc: i64| TS::vftable([f0("f0", "u32", Some("u32"), false, false, cc), f1()]);
    let field = |n: &str, t: &str| TS::field((V::Public, n), T::ident(t));
    let word = if ps == 8 { "u64" } else { "u32" };

    let mut a_stmts: Vec<TS> = vec![];
    if a[1] != 0 {
        a_stmts.push(base_vft(a[13]));
    }
    a_stmts.push(field("ax", word));
    let mut b_stmts: Vec<TS> = vec![];
    if a[2] != 0 {
        b_stmts.push(base_vft(0));
    }
    b_stmts.push(field("bx", word));

    let mut d_stmts: Vec<TS> = vec![];
    match a[4] {
        1 => {
            let mu = a[5];
            let d0 = f0(
                if mu == 1 { "f0x" } else { "f0" },
                if mu == 2 { "u64" } else { "u32" },
                if mu == 3 { None } else { Some("u32") },
                mu == 4,
                mu == 7,
                if mu == 5 { 3 } else { a[13] },
            );
            // a[14]: D's own extra virtual function is private and called `k`, like the bases' impl functions
            let h = if a[14] != 0 { F::new((V::Private, "k"), [Ar::ConstSelf]) } else { F::new((V::Public, "h"), [Ar::ConstSelf]) };
            let fns = if mu == 6 {
                vec![d0]
            } else if mu == 8 {
                vec![f1(), d0, h]
            } else if mu == 9 {
                // the block repeats the base's slots exactly and adds none
                vec![d0, f1()]
            } else {
                vec![d0, f1(), h]
            };
            d_stmts.push(TS::vftable(fns));
        }
        2 => d_stmts.push(TS::vftable([F::new((V::Public, "h"), [Ar::ConstSelf])])),
        _ => {}
    }
    d_stmts.push(field("a", "A").with_attributes([A::base()]));
    if a[3] != 0 {
        // a[15]: the second base has the same type as the first (a base type occurring twice in the hierarchy)
        d_stmts.push(field("b", if a[15] != 0 { "A" } else { "B" }).with_attributes([A::base()]));
    }
    d_stmts.push(field("dx", word));

    let mut defs = vec![
        ID::new((V::Public, "A"), TD::new(a_stmts)),
        ID::new((V::Public, "B"), TD::new(b_stmts)),
        ID::new((V::Public, "D"), TD::new(d_stmts)),
    ];
    if a[6] != 0 {
        let mut dd_stmts: Vec<TS> = vec![];
        if a[7] != 0 {
            dd_stmts.push(TS::vftable([F::new((V::Public, "hh"), [Ar::ConstSelf])]));
        }
        dd_stmts.push(field("d", "D").with_attributes([A::base()]));
        if a[16] != 0 {
            // a[16]: DD has a second base B (which may own a vftable pointer at a shallower depth than DD's first-base chain)
            dd_stmts.push(field("b2", "B").with_attributes([A::base()]));
        }
        dd_stmts.push(field("ddx", word));
        defs.push(ID::new((V::Public, "DD"), TD::new(dd_stmts)));
    }
    let impl_fn = |name: &str, addr: isize, vis: bool| {
        F::new((if vis { V::Public } else { V::Private }, name), [Ar::ConstSelf])
            .with_attributes([A::integer_fn("address", addr)])
    };
    let mut impls: Vec<FB> = vec![];
    if a[8] != 0 {
        impls.push(FB::new("A", [impl_fn("k", 0x100, a[12] != 0)]));
    }
    if a[9] != 0 {
        impls.push(FB::new("B", [impl_fn(if a[11] != 0 { "k" } else { "kb" }, 0x200, true)]));
    }
    if a[10] != 0 {
        impls.push(FB::new("D", [impl_fn(if a[11] == 2 { "k" } else { "kd" }, 0x300, true)]));
    }
    let m = M::new().with_definitions(defs).with_impls(impls);
    build_one(ps, &m)
}

// ------------------------------------------------------------------------------------------------
// t_items: item-level collisions (C14).
// a = [ps, dup_type, dup_kind, vft_clash, ext_clash, second_module, ext_vft_clash, backend pattern, empty_vftable_block]   (ext_vft_clash needs T to own a vftable: set vft_own)
//  dup_type: module m declares `T` twice (second one: dup_kind 0 => another type with a u64 field, 1 => an enum)
//  vft_clash: `T` has a vftable block and the user also declares a type named `TVftable`
//  ext_clash: an extern type named `T` as well
//  second_module: module `n` also declares a `T` (must not collide)
pub fn t_items(a: &[i64]) -> Val {
    let ps = a[0] as usize;
    let mut t_stmts: Vec<TS> = vec![];
    if a.len() > 8 && a[8] != 0 && a[3] == 0 && a[6] == 0 {
        // a[8]: T declares a vftable block that lists no functions (the generated table type exists all the same)
        t_stmts.push(TS::vftable(Vec::<F>::new()));
    }
    if a[3] != 0 || a[6] != 0 {
        t_stmts.push(TS::vftable([F::new((V::Public, "f"), [Ar::ConstSelf])]));
    }
    t_stmts.push(TS::field((V::Public, "a"), T::ident("u8").const_pointer()));
    let mut defs = vec![ID::new((V::Public, "T"), TD::new(t_stmts))];
    if a[1] != 0 {
        if a[2] != 0 {
            defs.push(ID::new((V::Public, "T"), ED::new(T::ident("u32"), [ES::field("A")], [])));
        } else {
            defs.push(ID::new(
                (V::Public, "T"),
                TD::new([TS::field((V::Public, "b"), T::ident("u64"))]).with_attributes([A::align(8)]),
            ));
        }
    }
    if a[3] != 0 {
        defs.push(ID::new(
            (V::Public, "TVftable"),
            TD::new([TS::field((V::Public, "z"), T::ident("u8").const_pointer())]),
        ));
    }
    let mut m = M::new().with_definitions(defs);
    let mut exts: Vec<(grammar::Ident, As)> = vec![];
    if a[4] != 0 {
        exts.push(("T".into(), As::from(vec![A::size(4), A::align(4)])));
    }
    if a[6] != 0 {
        // an extern type named like the vftable struct generated for T
        exts.push(("TVftable".into(), As::from(vec![A::size(64), A::align(8)])));
    }
    m = m.with_extern_types(exts);
    // a[7]: backend blocks of module m: 0 none, 1 [rust], 2 [rust, rust], 3 [rust, cpp, rust], 4 [cpp, rust], 5 [rust, rust, cpp, rust]
    // the texts are valid Rust items, so that the emitted file can be pretty-printed and inspected
    let rb = |i: usize| B::new("rust").with_prologue(format!("const P{}: u8 = 1;", i)).with_epilogue(format!("const E{}: u8 = 2;", i));
    let cb = || B::new("cpp").with_prologue("CP").with_epilogue("CE");
    let bks: Vec<B> = match a[7] {
        1 => vec![rb(1)],
        2 => vec![rb(1), rb(2)],
        3 => vec![rb(1), cb(), rb(2)],
        4 => vec![cb(), rb(1)],
        5 => vec![rb(1), rb(2), cb(), rb(3)],
        _ => vec![],
    };
    m = m.with_backends(bks);
    // module m also has an extern value: its accessor belongs between the items and the epilogue texts
    m = m.with_extern_values([EV::new(V::Public, "ev", T::ident("u32"), [A::integer_fn("address", 64)])]);
    let mut st = SemanticState::new(ps);
    if let Err(e) = st.add_module(&m, &IP::from("m")) {
        return outcome(Err(e));
    }
    if a[5] != 0 {
        let n = M::new().with_definitions([ID::new(
            (V::Public, "T"),
            TD::new([TS::field((V::Public, "c"), T::ident("u8").mut_pointer())]),
        )]);
        if let Err(e) = st.add_module(&n, &IP::from("n")) {
            return outcome(Err(e));
        }
    }
    let r = st.build();
    if let Ok(st) = &r {
        maybe_emit(st);
    }
    outcome(r)
}

// ------------------------------------------------------------------------------------------------
// t_extern: singletons and extern values (C15).
// a = [ps, t_singleton (2: on a type without fields), t_addr, e_singleton, e_addr, nvals, per value (stride 4): has_addr, addr, type_kind, vis]
//  type_kind: arg_type() codes, plus 7 => [u32; 4], 8 => *const E
const EV_NAMES: [&str; 3] = ["g0", "g1", "g2"];
pub fn t_extern(a: &[i64]) -> Val {
    let ps = a[0] as usize;
    let mut t_attrs: Vec<A> = vec![];
    if a[1] != 0 {
        t_attrs.push(A::integer_fn("singleton", a[2] as isize));
    }
    // the enum is copyable: the accessor pyxis emits for an enum singleton (`*(A as *const Self)`) only compiles for Copy enums
    let mut e_attrs: Vec<A> = vec![A::copyable()];
    if a[3] != 0 {
        e_attrs.push(A::integer_fn("singleton", a[4] as isize));
    }
    let mut evs: Vec<EV> = vec![];
    let n = a[5] as usize;
    let mut i = 0;
    while i < n && i < 3 {
        let b = 6 + i * 4;
        let ty = match a[b + 2] {
            7 => T::ident("u32").array(4),
            8 => T::ident("E").const_pointer(),
            k => arg_type(k),
        };
        let mut attrs: Vec<A> = vec![];
        if a[b] != 0 {
            attrs.push(A::integer_fn("address", a[b + 1] as isize));
        }
        evs.push(EV::new(if a[b + 3] != 0 { V::Public } else { V::Private }, EV_NAMES[i], ty, attrs));
        i += 1;
    }
    let m = M::new()
        .with_definitions([
            ID::new(
                (V::Public, "T"),
                // a[1] == 2: the singleton type has no fields at all (size 0)
                (if a[1] == 2 { TD::new(Vec::<TS>::new()) } else { TD::new([TS::field((V::Public, "a"), T::ident("u8").const_pointer())]) })
                    .with_attributes(t_attrs),
            ),
            ID::new((V::Public, "E"), ED::new(T::ident("u32"), [ES::field("A")], e_attrs)),
        ])
        .with_extern_values(evs);
    build_one(ps, &m)
}


// ------------------------------------------------------------------------------------------------
// t_nest: sizes and alignments across types (C02).
//   extern X (ext_size, ext_align);  type I { x: [X; ci] } with optional size/align/packed;
//   enum En: <base>;  type O { f0: <I by value | [I; co] | *const I>, e: En, tail: unknown<pad> } with optional address on
//   `e` and optional size/align.
// a = [ps, ext_size, ext_align, ci, i_has_size, i_size, i_has_align, i_align, i_packed,
//      o_kind(0 value, 1 pointer, 3 array), co, e_base(0..7), e_has_addr, e_addr, pad, o_has_size, o_size, o_has_align, o_align, e_first]
pub fn t_nest(a: &[i64]) -> Val {
    let ps = a[0] as usize;
    let mut i_attrs: Vec<A> = vec![];
    if a[4] != 0 {
        i_attrs.push(A::integer_fn("size", a[5] as isize));
    }
    if a[6] != 0 {
        i_attrs.push(A::integer_fn("align", a[7] as isize));
    }
    if a[8] != 0 {
        i_attrs.push(A::packed());
    }
    let inner = ID::new(
        (V::Public, "I"),
        TD::new([TS::field((V::Public, "x"), T::ident("X").array(a[3] as usize))]).with_attributes(i_attrs),
    );
    let f0_ty = match a[9] {
        0 => T::ident("I"),
        1 => T::ident("I").const_pointer(),
        _ => T::ident("I").array(a[10] as usize),
    };
    let base = a[11];
    let en = ID::new(
        (V::Public, "En"),
        ED::new(
            T::ident(ENUM_BASES[if base >= 0 && base < 8 { base as usize } else { 0 }]),
            [ES::field("A"), ES::field("B")],
            [],
        ),
    );
    let mut e_st = TS::field((V::Public, "e"), T::ident("En"));
    if a[12] != 0 {
        e_st = e_st.with_attributes([A::integer_fn("address", a[13] as isize)]);
    }
    let mut o_attrs: Vec<A> = vec![];
    if a[15] != 0 {
        o_attrs.push(A::integer_fn("size", a[16] as isize));
    }
    if a[17] != 0 {
        o_attrs.push(A::integer_fn("align", a[18] as isize));
    }
    let outer = ID::new(
        (V::Public, "O"),
        // a[19]: `e` comes before `f0` (so that a zero-sized or over-aligned f0 can land on a misaligned offset)
        TD::new(if a[19] != 0 {
            vec![e_st, TS::field((V::Public, "f0"), f0_ty), TS::field((V::Public, "_"), T::unknown(a[14] as usize))]
        } else {
            vec![TS::field((V::Public, "f0"), f0_ty), e_st, TS::field((V::Public, "_"), T::unknown(a[14] as usize))]
        })
        .with_attributes(o_attrs),
    );
    // O is declared before I on purpose: resolution order must not matter
    let m = M::new()
        .with_extern_types([(
            "X".into(),
            As::from(vec![A::integer_fn("size", a[1] as isize), A::integer_fn("align", a[2] as isize)]),
        )])
        .with_definitions([outer, inner, en]);
    build_one(ps, &m)
}


// ------------------------------------------------------------------------------------------------
// Product templates: the same (or an equivalent) description is built more than once in one run and all
// outcomes are returned, so that a relational property becomes a property of one path.

// t_order_graph: t_graph twice (C09): the interpreter gives the second build another hash-map iteration order.
pub fn t_order_graph(a: &[i64]) -> Val {
    Val::L(vec![t_graph(a), t_graph(a)])
}

// t_order_scope: t_scope twice (C09): name lookup must not depend on hash-map / hash-set iteration order.
pub fn t_order_scope(a: &[i64]) -> Val {
    Val::L(vec![t_scope(a), t_scope(a)])
}

// t_order_vft: generated vftable types referenced from signatures, built twice (C09).
//   A { vftable { f(&self) }, x }   B { y }  impl B { #[address(16)] fn g(&self, p: ARG) }
//   C { vftable { h(&self, q: ARG2) }, z }   extern ev: ARG3 at 32
// a = [ps, arg, arg2, arg3, b_field, n_avft, m_cvft]   kinds: 0 u32, 1 *const A, 2 *const AVftable, 3 *const CVftable, 4 *const BVftable (never exists)
//   b_field: B additionally has a field of that kind (fields are retried, signatures are not)
//   n_avft: an imported module `n` declares its own `AVftable` (two pointers), so the name AVftable has two providers once m's is generated
fn order_arg(k: i64) -> T {
    match k {
        0 => T::ident("u32"),
        1 => T::ident("A").const_pointer(),
        2 => T::ident("AVftable").const_pointer(),
        3 => T::ident("CVftable").const_pointer(),
        _ => T::ident("BVftable").const_pointer(),
    }
}
pub fn t_order_vft(a: &[i64]) -> Val {
    let ps = a[0] as usize;
    let p8 = || T::ident("u8").const_pointer();
    let mut b_stmts = vec![TS::field((V::Public, "y"), p8())];
    if a[4] != 0 {
        b_stmts.push(TS::field((V::Public, "w"), order_arg(a[4])));
    }
    let m = M::new()
        .with_definitions([
            ID::new(
                (V::Public, "A"),
                TD::new([TS::vftable([F::new((V::Public, "f"), [Ar::ConstSelf])]), TS::field((V::Public, "x"), p8())]),
            ),
            ID::new((V::Public, "B"), TD::new(b_stmts)),
            ID::new(
                (V::Public, "C"),
                TD::new([
                    TS::vftable([F::new((V::Public, "h"), [Ar::ConstSelf, Ar::named("q", order_arg(a[2]))])]),
                    TS::field((V::Public, "z"), p8()),
                ]),
            ),
        ])
        .with_impls([FB::new(
            "B",
            [F::new((V::Public, "g"), [Ar::ConstSelf, Ar::named("p", order_arg(a[1]))])
                .with_attributes([A::integer_fn("address", 16)])],
        )])
        .with_extern_values([EV::new(V::Public, "ev", order_arg(a[3]), [A::integer_fn("address", 32)])]);
    // a[6]: m itself declares a user type named like the vftable type pyxis generates for C (a collision, whatever is resolved first)
    let m = if a.len() > 6 && a[6] != 0 {
        let mut defs = m.definitions.clone();
        defs.push(ID::new((V::Public, "CVftable"), TD::new([TS::field((V::Public, "u"), p8())])));
        m.with_definitions(defs)
    } else {
        m
    };
    if a.len() > 5 && a[5] != 0 {
        let m = m.with_uses([IP::from("n")]);
        let n = M::new().with_definitions([ID::new(
            (V::Public, "AVftable"),
            TD::new([TS::field((V::Public, "n0"), p8()), TS::field((V::Public, "n1"), p8())]),
        )]);
        let both = || -> Val {
            let mut st = SemanticState::new(ps);
            if let Err(e) = st.add_module(&m, &IP::from("m")) {
                return outcome(Err(e));
            }
            if let Err(e) = st.add_module(&n, &IP::from("n")) {
                return outcome(Err(e));
            }
            outcome(st.build())
        };
        return Val::L(vec![both(), both()]);
    }
    Val::L(vec![build_one(ps, &m), build_one(ps, &m)])
}

// t_equiv: a description and a rewritten but equivalent description (C20).
//   extern X0 (s0, al), X1 (s1, al);  type T { [vftable { v0; v1 }] f0: X0, <gap g>, f1: X1 }  enum t: i32 { A = e0, B, C }
// a = [ps, s0, s1, al, g, e0, vft, r_addr0, r_gap, r_size, r_index, r_enum, r_order, r_addr1, base_mode, packed (2 = packed with a leading u8 field), gap_style, gap_split]
//   r_addr0 : f0 gets the explicit address it already has          r_addr1: same for f1
//   r_gap   : the gap is written as `_: unknown<g>` in the first description and as #[address] on f1 in the second
//   r_size  : #[size(natural size)] added        r_index : #[index(1)] on v1      r_enum : `B = e0 + 1` written out
//   r_order : the definitions of the module are listed in the opposite order
pub fn t_equiv(a: &[i64]) -> Val {
    let ps = a[0] as usize;
    let (s0, s1, al, g, e0) = (a[1] as usize, a[2] as usize, a[3], a[4] as usize, a[5] as isize);
    let vft = a[6] != 0;
    // a[15] == 2: packed, and a leading `pre: u8` shifts every later field by one byte (misaligned whenever al > 1)
    let pre = a[15] == 2;
    let head = (if vft { ps } else { 0 }).wrapping_add(pre as usize);
    let off0 = head;
    let base_mode = a[14] != 0;
    let off1 = if base_mode { head.wrapping_add(g) } else { head.wrapping_add(s0).wrapping_add(g) };
    let natural = if base_mode { off1.wrapping_add(ps).wrapping_add(s1) } else { off1.wrapping_add(s1) };
    let build = |rw: bool| -> Val {
        let on = |i: usize| rw && a[i] != 0;
        let mut stmts: Vec<TS> = vec![];
        if vft {
            let v1 = F::new((V::Public, "v1"), [Ar::ConstSelf]);
            let v1 = if on(10) { v1.with_attributes([A::integer_fn("index", 1)]) } else { v1 };
            stmts.push(TS::vftable([F::new((V::Public, "v0"), [Ar::ConstSelf]), v1]));
        }
        if pre {
            stmts.push(TS::field((V::Public, "pre"), T::ident("u8")));
        }
        let f0 = TS::field((V::Public, "f0"), T::ident("X0"));
        stmts.push(if on(7) && !base_mode { f0.with_attributes([A::integer_fn("address", off0 as isize)]) } else { f0 });
        // a[14]: f1 is a #[base] field of a type with a vftable (and f0 is left out, so only the gap precedes the base)
        if base_mode {
            stmts.pop();
            if pre {
                stmts.push(TS::field((V::Public, "pre"), T::ident("u8")));
            }
        }
        let mk_f1 = |with_addr: bool| -> TS {
            let mut at: Vec<A> = vec![];
            if base_mode {
                at.push(A::base());
            }
            if with_addr {
                at.push(A::integer_fn("address", off1 as isize));
            }
            TS::field((V::Public, "f1"), T::ident(if base_mode { "Bv" } else { "X1" })).with_attributes(at)
        };
        let gap_split = a.len() > 17 && a[17] != 0 && a[8] != 0;
        if gap_split {
            // a[17]: the gap is two adjacent fields `_: unknown<1>`, `_: unknown<g - 1>` in the first description; the second keeps the first of them and reaches f1 by
            // its address (the padding pyxis generates must be its own region, exactly like the field it replaces)
            let h: usize = 1;
            stmts.push(TS::field((V::Private, "_"), T::unknown(h)));
            if rw {
                stmts.push(mk_f1(true));
            } else {
                stmts.push(TS::field((V::Private, "_"), T::unknown(g.wrapping_sub(h))));
                stmts.push(mk_f1(on(13)));
            }
        } else if a[8] != 0 {
            // gap spelled as unknown<g> (first description) or as an address on f1 (second)
            if rw {
                stmts.push(mk_f1(true));
            } else {
                // a[16]: the gap is written `pub _: unknown<g>` (1) or carries a doc comment (2): generated `_field_<offset>` fields are
                // private and undocumented however the gap was spelled
                let gap_style = if a.len() > 16 { a[16] } else { 0 };
                let gap = TS::field((if gap_style == 1 { V::Public } else { V::Private }, "_"), T::unknown(g));
                stmts.push(if gap_style == 2 { gap.with_attributes([A::doc("a gap")]) } else { gap });
                stmts.push(mk_f1(on(13)));
            }
        } else {
            // the gap is an address on f1 in both descriptions
            stmts.push(mk_f1(true));
        }
        // a[15]: the type is packed (no align attribute then)
        let mut t_attrs = if a[15] != 0 { vec![A::packed()] } else { vec![A::integer_fn("align", al as isize)] };
        if on(9) {
            t_attrs.push(A::integer_fn("size", natural as isize));
        }
        let td = ID::new((V::Public, "T"), TD::new(stmts).with_attributes(t_attrs));
        let b = if on(11) { ES::field_with_expr("B", E::IntLiteral(e0.wrapping_add(1))) } else { ES::field("B") };
        // the enum is called `t`: its name differs from the type `T` only in case (emission order must not depend on declaration order)
        let ed = ID::new(
            (V::Public, "t"),
            ED::new(T::ident("i32"), [ES::field_with_expr("A", E::IntLiteral(e0)), b, ES::field("C")], []),
        );
        let bv = ID::new(
            (V::Public, "Bv"),
            TD::new([
                TS::vftable([F::new((V::Public, "b0"), [Ar::ConstSelf])]),
                TS::field((V::Private, "_"), T::unknown(s1)),
            ])
            .with_attributes([A::integer_fn("align", ps as isize)]),
        );
        let defs = if on(12) { vec![ed, bv, td] } else { vec![td, bv, ed] };
        let ext = |n: &str, sz: usize| -> (grammar::Ident, As) {
            (n.into(), As::from(vec![A::integer_fn("size", sz as isize), A::integer_fn("align", al as isize)]))
        };
        let m = M::new().with_extern_types(vec![ext("X0", s0), ext("X1", s1)]).with_definitions(defs);
        build_one(ps, &m)
    };
    Val::L(vec![build(false), build(true)])
}

// t_unrelated: module `m` (imports `n`) built without and with an unrelated module `u` (C19).
//   n: extern S (size sn);  m: use n;  type R { f: S, p: *const R }  [vftable on R]  enum K: u32
//   u: not imported by m or n.  It declares, per flag: a type named R (colliding short name), a type named S of another size,
//      a type with a vftable named like R's table (RVftable), an enum K, and it may import m.
// a = [ps, sn, r_vft, u_R, u_S, u_S_size, u_RVftable, u_K, u_uses_m, u_first, u_impl_R, type_import, u_refs_private, u_path]
pub fn t_unrelated(a: &[i64]) -> Val {
    let ps = a[0] as usize;
    let mn = M::new().with_extern_types([(
        "S".into(),
        As::from(vec![A::integer_fn("size", a[1] as isize), A::integer_fn("align", 1)]),
    )]);
    let mut r_stmts: Vec<TS> = vec![];
    if a[2] != 0 {
        r_stmts.push(TS::vftable([F::new((V::Public, "f"), [Ar::ConstSelf])]));
    }
    r_stmts.push(TS::field((V::Public, "p"), T::ident("R").const_pointer()));
    r_stmts.push(TS::field((V::Public, "f"), T::ident("S")));
    // a[11] != 0: m imports the type `n::S` by path (not the module) and has its own type `S2`, whose name starts with the imported
    // type's name; a[11] == 2: in the second build n additionally declares an `S2` of its own, which m neither imports nor references
    let type_import = a.len() > 11 && a[11] != 0;
    let mut m_defs = vec![];
    if type_import {
        r_stmts.push(TS::field((V::Public, "g"), T::ident("S2").const_pointer()));
        m_defs.push(ID::new((V::Public, "S2"), TD::new([TS::field((V::Public, "w"), T::ident("u32"))])));
    }
    m_defs.push(ID::new((V::Public, "R"), TD::new(r_stmts).with_attributes([A::packed()])));
    m_defs.push(ID::new((V::Public, "K"), ED::new(T::ident("u32"), [ES::field("A")], [])));
    if a.len() > 12 && a[12] != 0 {
        m_defs.push(ID::new((V::Private, "P"), TD::new([TS::field((V::Public, "z"), T::ident("u32"))])));
        m_defs.push(ID::new((V::Private, "Q"), ED::new(T::ident("u32"), [ES::field("A")], [])));
    }
    let mm = M::new().with_uses([IP::from(if type_import { "n::S" } else { "n" })]).with_definitions(m_defs);
    let mn2 = mn.clone().with_definitions([ID::new(
        (V::Public, "S2"),
        TD::new([TS::field((V::Public, "a"), T::ident("u64")), TS::field((V::Public, "b"), T::ident("u64"))])
            .with_attributes([A::align(8)]),
    )]);
    let n_gains_s2 = a.len() > 11 && a[11] == 2;
    let mut u_defs: Vec<ID> = vec![];
    let p8 = || T::ident("u8").const_pointer();
    if a[3] != 0 {
        u_defs.push(ID::new((V::Public, "R"), TD::new([TS::field((V::Public, "zz"), p8())])));
    }
    if a[6] != 0 {
        u_defs.push(ID::new((V::Public, "RVftable"), TD::new([TS::field((V::Public, "zy"), p8())])));
    }
    if a[7] != 0 {
        u_defs.push(ID::new((V::Public, "K"), ED::new(T::ident("u8"), [ES::field("Z")], [])));
    }
    // a[12]: m has a private type `P` and a private enum `Q`; u (which must import m to see them) has a public type with fields of those types.
    //        u referring to m's items does not make u reachable from m.
    let u_refs_private = a.len() > 12 && a[12] != 0;
    if u_refs_private {
        u_defs.push(ID::new(
            (V::Public, "UP"),
            TD::new([
                TS::field((V::Public, "qq"), T::ident("Q").const_pointer()),
                TS::field((V::Public, "pp"), T::ident("P")),
                TS::field((V::Public, "pad"), T::ident("u32")),
            ]),
        ));
    }
    let mut mu = M::new().with_definitions(u_defs);
    if a[4] != 0 {
        mu = mu.with_extern_types([(
            "S".into(),
            As::from(vec![A::integer_fn("size", a[5] as isize), A::integer_fn("align", 1)]),
        )]);
    }
    if a[8] != 0 {
        mu = mu.with_uses([IP::from("m")]);
    }
    if a[10] != 0 {
        // an impl block in u for the name `R` (u's own R if it declares one, otherwise a name that is only visible through `use m`)
        mu = mu.with_impls([FB::new(
            "R",
            [F::new((V::Public, "from_u"), [Ar::ConstSelf]).with_attributes([A::integer_fn("address", 4096)])],
        )]);
    }
    // a[13]: where the unrelated module lives: 0 = top-level `u`; 1 = `m::sub`, 2 = `n::sub` (a nested module of m / of the module m
    // imports; neither m nor n imports it, so a name it declares is not in their scope)
    let u_path: &str = if a.len() > 13 && a[13] == 1 {
        "m::sub"
    } else if a.len() > 13 && a[13] == 2 {
        "n::sub"
    } else {
        "u"
    };
    let run = |with_u: bool| -> Val {
        let mut st = SemanticState::new(ps);
        let mut mods: Vec<(&M, &str)> = vec![];
        if with_u && a[9] != 0 {
            mods.push((&mu, u_path));
        }
        mods.push((&mm, "m"));
        mods.push((if with_u && n_gains_s2 { &mn2 } else { &mn }, "n"));
        if with_u && a[9] == 0 {
            mods.push((&mu, u_path));
        }
        for (m, p) in mods {
            if let Err(e) = st.add_module(m, &IP::from(p)) {
                return outcome(Err(e));
            }
        }
        outcome(st.build())
    };
    Val::L(vec![run(false), run(true)])
}


// ------------------------------------------------------------------------------------------------
// t_odd: structurally unusual but well-formed grammar trees (C12: every input yields a result).
//   type Base { [vftable { f(&self) }] x: word }    enum En: u32 { A }
//   type D { [vftable block at position vpos] #[base]? <name | _>: <Base | *const Base | En | [Base; n] | u32 | unknown<n>>, y: word }
// a = [ps, base_vft, named, is_base, kind, n, d_vft(0 none, 1 first, 2 after the field), doc_kind(0 none, 1 string, 2 integer), dup_attr]
pub fn t_odd(a: &[i64]) -> Val {
    let ps = a[0] as usize;
    let word = if ps == 8 { "u64" } else { "u32" };
    let mut b_stmts: Vec<TS> = vec![];
    if a[1] != 0 {
        b_stmts.push(TS::vftable([F::new((V::Public, "f"), [Ar::ConstSelf])]));
    }
    b_stmts.push(TS::field((V::Public, "x"), T::ident(word)));
    let ty = match a[4] {
        0 => T::ident("Base"),
        1 => T::ident("Base").const_pointer(),
        2 => T::ident("En"),
        3 => T::ident("Base").array(a[5] as usize),
        4 => T::ident(word),
        _ => T::unknown(a[5] as usize),
    };
    let mut fattrs: Vec<A> = vec![];
    if a[3] != 0 {
        fattrs.push(A::base());
    }
    match a[7] {
        1 => fattrs.push(A::doc("a doc line")),
        2 => fattrs.push(A::Assign("doc".into(), E::IntLiteral(7))),
        _ => {}
    }
    if a[8] != 0 {
        fattrs.push(A::integer_fn("address", 0));
        fattrs.push(A::integer_fn("address", ps as isize));
    }
    let fld = TS::field((V::Public, if a[2] != 0 { "b" } else { "_" }), ty).with_attributes(fattrs);
    let vt = || TS::vftable([F::new((V::Public, "f"), [Ar::ConstSelf])]);
    let mut d_stmts: Vec<TS> = vec![];
    if a[6] == 1 {
        d_stmts.push(vt());
    }
    d_stmts.push(fld);
    if a[6] == 2 {
        d_stmts.push(vt());
    }
    d_stmts.push(TS::field((V::Public, "y"), T::ident(word)));
    let m = M::new().with_definitions([
        ID::new((V::Public, "D"), TD::new(d_stmts)),
        ID::new((V::Public, "Base"), TD::new(b_stmts)),
        ID::new((V::Public, "En"), ED::new(T::ident("u32"), [ES::field("A")], [])),
    ]);
    build_one(ps, &m)
}


// t_modtype: a nested module `p::q` refers to its own type `q`; the enclosing module `p` may declare a type that is also called
// `q` (so that the *type* path `p::q` equals the *module* path `p::q`).  Built without and with that type (C19, C11).
// a = [ps, own_size, parent_size, which_name]   which_name: 0 => the type is called `q` like the module, 1 => it is called `S`
pub fn t_modtype(a: &[i64]) -> Val {
    let ps = a[0] as usize;
    let tname = if a[3] != 0 { "S" } else { "q" };
    let ext = |size: i64| -> Vec<(grammar::Ident, As)> {
        vec![(tname.into(), As::from(vec![A::integer_fn("size", size as isize), A::integer_fn("align", 1)]))]
    };
    let inner = M::new().with_extern_types(ext(a[1])).with_definitions([ID::new(
        (V::Public, "R"),
        TD::new([TS::field((V::Public, "f"), T::ident(tname))]).with_attributes([A::packed()]),
    )]);
    let run = |with_parent_type: bool| -> Val {
        let mut st = SemanticState::new(ps);
        let parent = if with_parent_type { M::new().with_extern_types(ext(a[2])) } else { M::new() };
        if let Err(e) = st.add_module(&parent, &IP::from("p")) {
            return outcome(Err(e));
        }
        if let Err(e) = st.add_module(&inner, &IP::from("p::q")) {
            return outcome(Err(e));
        }
        outcome(st.build())
    };
    Val::L(vec![run(false), run(true)])
}

// t_order_modules: the same three modules added in two different orders (C09: the result does not depend on the order in which modules are
// added).  `p` declares a type / extern type that may be called like its nested module `q`; `p::q` and `r` are further modules.
// a = [ps, p_item (0 none, 1 type `q`, 2 extern type `q`, 3 type `S`), q_refs (0 own type, 1 a type of r via `use r`), order (0..5)]
pub fn t_order_modules(a: &[i64]) -> Val {
    let ps = a[0] as usize;
    let p8 = || T::ident("u8").const_pointer();
    let mp = match a[1] {
        1 => M::new().with_definitions([ID::new((V::Public, "q"), TD::new([TS::field((V::Public, "x"), p8())]))]),
        2 => M::new().with_extern_types(vec![("q".into(), As::from(vec![A::integer_fn("size", 4), A::integer_fn("align", 4)]))]),
        3 => M::new().with_definitions([ID::new((V::Public, "S"), TD::new([TS::field((V::Public, "x"), p8())]))]),
        _ => M::new(),
    };
    let mr = M::new().with_definitions([ID::new((V::Public, "W"), TD::new([TS::field((V::Public, "w"), p8())]))]);
    let mut mq = M::new().with_definitions([
        ID::new((V::Public, "Own"), TD::new([TS::field((V::Public, "o"), p8())])),
        ID::new(
            (V::Public, "R"),
            TD::new([TS::field((V::Public, "f"), T::ident(if a[2] != 0 { "W" } else { "Own" }).const_pointer())]),
        ),
    ]);
    if a[2] != 0 {
        mq = mq.with_uses([IP::from("r")]);
    }
    let orders: [[usize; 3]; 6] = [[0, 1, 2], [0, 2, 1], [1, 0, 2], [1, 2, 0], [2, 0, 1], [2, 1, 0]];
    let run = |order: [usize; 3]| -> Val {
        let mods: [(&M, &str); 3] = [(&mp, "p"), (&mq, "p::q"), (&mr, "r")];
        let mut st = SemanticState::new(ps);
        for i in order {
            let (m, path) = mods[i];
            if let Err(e) = st.add_module(m, &IP::from(path)) {
                return outcome(Err(e));
            }
        }
        outcome(st.build())
    };
    let k = a[3] as usize;
    Val::L(vec![run(orders[0]), run(orders[if k < 6 { k } else { 0 }])])
}

pub type Template = fn(&[i64]) -> Val;
pub const TEMPLATES: &[(&str, Template)] = &[
    ("t_predefined", t_predefined),
    ("t_layout", t_layout),
    ("t_enum", t_enum),
    ("t_impl", t_impl),
    ("t_implname", t_implname),
    ("t_marks", t_marks),
    ("t_order_modules", t_order_modules),
    ("t_names", t_names),
    ("t_vftargs", t_vftargs),
    ("t_privbase", t_privbase),
    ("t_impl6", t_impl6),
    ("t_vft", t_vft),
    ("t_graph", t_graph),
    ("t_scope", t_scope),
    ("t_inherit", t_inherit),
    ("t_items", t_items),
    ("t_extern", t_extern),
    ("t_nest", t_nest),
    ("t_order_graph", t_order_graph),
    ("t_order_vft", t_order_vft),
    ("t_order_scope", t_order_scope),
    ("t_equiv", t_equiv),
    ("t_unrelated", t_unrelated),
    ("t_odd", t_odd),
    ("t_modtype", t_modtype),
];
