#!/usr/bin/env python3
"""Regenerates MANIFEST.json from the table below (kept in one place so that it is always schema-valid)."""
import json, subprocess

TECH = 'symbolic execution of pyxis MIR (pyxsym) + z3 QF_BV validity queries; counterexamples replayed natively'
CHECKS = {
 'C03': dict(text='For every description in the bounded family (<=2 fields quick / <=3 thorough, all six field kinds, every '
             'combination of address/size/align/packed, numerics < 2^10 / 2^12, pointer sizes 4 and 8) z3 proves on each '
             'symbolic path of the real type-resolution code that the description is accepted iff the realisability '
             'predicate of the property holds; each path also has one concrete witness replayed on the native build.',
             note='bounded: field count, numeric range, declared align <= 64; std/anyhow calls are Python models (listed in the evidence); '
                  'scalar field types are extern types with symbolic (size, align) in {1,2,4,8,16} plus a slice with the real built-in names',
             design='4/C03'),
}
CHECKS['C01'] = dict(text='On every accepted symbolic path of t_layout (same bounded family as C03) z3 proves that laying the '
             'produced region list out by the repr(C) rule puts every named field exactly at its declared address (or at its '
             'predecessor\'s end), that no named field is missing, that the compiler would insert no padding (every offset a multiple '
             'of the region alignment, size = sum of regions and a multiple of the alignment) and that region sizes/alignments equal '
             'the reference table.',
             note='bounded as C03; repr(C) layout rule and scalar alignment table (windows-msvc x86/x86_64) are the trusted reference; token emission of the struct not covered',
             design='4/C01')
CHECKS['C05'] = dict(text='Symbolic execution of function::build / type_definition::build for one impl function over every receiver, 0..3 '
             'parameters of integer/pointer/unresolvable type, every return type incl. unresolvable, every calling-convention value and a '
             'symbolic address over the whole isize range: on accepted paths z3 proves the recorded function has body Address{A} with A the '
             'declared value, the declared receiver/parameters/return type in order; on rejected paths it proves the declaration was not acceptable.',
             note='semantic stage only: the emitted wrapper text and its run-time call through the absolute address are not decided (no engine here can execute a call to an integer address); <= 3 parameters',
             design='4/C05')
CHECKS['C08'] = dict(text='Symbolic execution of enum_definition::build for 1..3 (thorough 5) variants, each explicit value symbolic over the whole isize range, '
             'every base type and default-marker placement: accepted paths must have discriminants = explicit value or predecessor+1, size/alignment '
             'of the base type, default index = marked variant, defaultable consistent; rejected paths must be invalid descriptions; no panics.',
             note='variants bounded (statement says up to 32); emission (`= v as _`, repr, #[default]) not covered; one open known finding (out-of-range values accepted, required by the repository\'s own test)',
             design='4/C08')
CHECKS['C12'] = dict(text='The templates are re-run with every numeric unconstrained (64-bit, negatives included); any path ending in a panic or '
             'exhausting the step budget is reported with a solver-produced description that is replayed on the native build.',
             note='semantic layer only (parser, file I/O outside); field/variant counts bounded; a path whose feasibility the solver cannot decide within its time limit is reported as inconclusive, not as pass',
             design='4/C12')
CHECKS['C04'] = dict(text='Symbolic execution of the vftable construction for 1..2 (thorough 3) virtual functions with symbolic #[index] and table #[size]: '
             'on accepted paths z3 proves every declared function sits in its slot (index, else predecessor+1), all other slots are private thiscall '
             'placeholders, the generated vftable struct lists the same slots with size = slots * pointer width, and the type starts with one private '
             'vftable pointer; on rejected paths it proves the indices/size were contradictory.',
             note='slot arithmetic and table layout only; the run-time dispatch clause (wrapper loads the table and calls the slot) needs execution of emitted code and is not decided here; indices < 6, size < 8',
             design='4/C04')
CHECKS['C16'] = dict(text='Symbolic execution of function::build and the vftable construction with the calling-convention attribute ranging over absent, the '
             'seven names and an unknown name, receivers none/&self/&mut self, in impl functions, vftable slots (incl. placeholders and the slot\'s '
             'function-pointer type in the generated vftable struct) and derived tables (depth 1 and 2): z3 proves every occurrence carries the '
             'declared convention or the documented default and that the unknown name is rejected.',
             note='semantic values only; the extern "<cc>" token emitted by the backend is CallingConvention::as_str of the checked value and is not executed',
             design='4/C16')
CHECKS['C10'] = dict(text='Symbolic execution of the resolution fix-point over dependency graphs of 2..3 (thorough 4) types in two mutually importing modules '
             '(field types: scalar, by value, pointer, array, #[base], enum, undefined name; targets incl. a non-existent type; rotated definition and '
             'module order): z3 proves accepted <=> all names defined and by-value relation acyclic (closure unrolled), that accepted builds contain '
             'every declared type and field with its declared type, and that the not-terminating error lists exactly the unresolvable types.',
             note='graph size bounded (<= 4 types, <= 2 fields each, 2 modules); scalars pointer-width so layout never interferes; undefined names in function signatures / enum bases / extern values are covered by C05, C08 (base 9) and C15',
             design='4/C10')
CHECKS['C11'] = dict(text='Symbolic execution of resolve_string / Module::scope for a name declared with distinct sizes in any subset of four modules (one nested), '
             'with every sequence of up to 2 (thorough 3) type imports, module imports and a missing module, and for a built-in name: z3 proves the '
             'field binds to the provider selected by the precedence chain (last type import, built-in, own module, imported modules in order) and that '
             'the enclosing type has that provider\'s size; no provider <=> rejected.',
             note='use-list length bounded; printed crate:: path in emitted code not executed', design='4/C11')
CHECKS['C14'] = dict(text='Symbolic execution of add_module / add_item / the resolution loop on modules with every combination of a duplicate type or enum declaration, '
             'a user type named like a generated vftable struct, an extern type of the same name and a same-named type in another module: z3 proves '
             'accepted <=> no two declarations share an item path, and that each declared item is in its own module\'s definition set only.',
             note='item level only: file names, directory creation, prologue/epilogue order and formatting (lib.rs::build, write_module) are file-system code outside the claim',
             design='4/C14')
CHECKS['C15'] = dict(text='Symbolic execution of the singleton / extern-value handling with every address symbolic over the whole isize range and value types over '
             'scalars, pointers, arrays and unresolvable names: on accepted paths z3 proves the stored singleton and extern-value addresses equal the '
             'declared numbers with the declared type and visibility; a missing address, an unresolvable type or a negative number must be rejected.',
             note='semantic stage only: the emitted accessor bodies (pointer indirection, None on null) dereference absolute addresses and cannot be executed by the engines available here; <= 2 extern values',
             design='4/C15')
TECH2 = 'symbolic execution of pyxis MIR (pyxsym) with z3 deciding path feasibility and that each leaf covers exactly one description; outcome compared with a reference model; natively replayed'
CHECKS['C06'] = dict(text='Symbolic execution of vftable::build / resolve_regions over every inheritance shape of the bounded family (two bases with/without tables, '
             'derived type with no / prefix-repeating / non-repeating block, eight single-slot mutations of the prefix, second-level derived type): '
             'for each leaf z3 shows the path condition admits exactly one description, whose outcome must equal the reference model: mutations '
             'rejected, derived tables share the first base\'s pointer (no own field, base_field, table type), own table => one private pointer field at offset 0.',
             note='depth 2, <= 2 bases per type (statement: depth 4, 3 bases); the reference model is Python evaluated per leaf; the emitted vftable() accessor is not executed',
             design='4/C06', technique=TECH2)
CHECKS['C07'] = dict(text='Same exploration with impl blocks, visibility and name clashes as the varying dimensions: the associated-function list of every type must equal the '
             'reference (public base functions and non-first-base virtual functions re-exposed under their name or <field>_<name>, forwarding body '
             'Field{base field, original}, private ones hidden, signature preserved, own functions last).',
             note='semantic stage only: forwarding body text, AsRef/AsMut emission and the run-time receiver address (base sub-object offset) are not executed; depth 2, <= 2 bases',
             design='4/C07', technique=TECH2)
NA = {}
ALL = [json.loads(l)['id'] for l in open('properties.jsonl')]
for p in ALL:
    if p not in CHECKS and p not in NA:
        NA[p] = 'not yet encoded in this round (planned with the same engine; see DESIGN.md section 4)'

def main():
    hooks_commits = []
    m = {
     'version': 1,
     'setup_cmd': './setup.sh',
     'hooks': {'guard': '--cfg pyxis_verif', 'enable': 'RUSTFLAGS="--cfg pyxis_verif" (set by pyxsym/build.py when it builds the native replay binary from a scratch copy of /repo)',
               'baseline_off_cmd': 'cd /repo && cargo test --workspace --no-fail-fast --offline',
               'source_commits': hooks_commits, 'add_only': True},
     'engines': [{'name': 'pyxsym', 'path': 'pyxsym/', 'serves_properties': sorted(CHECKS),
                  'kind_free_text': 'symbolic interpreter over the nightly MIR dump of /repo (regenerated on every run) with z3; native replay binary built from the same scratch copy'}],
     'checks': [],
     'not_applicable': [{'property_id': p, 'reason': r} for p, r in sorted(NA.items())],
     'notes': 'exit 0 = held on everything explored; exit 1 + VIOLATION line = reproduced violation; exit 2 = inconclusive (unsupported construct, model mismatch, solver unknown, build failure).',
    }
    for p, c in sorted(CHECKS.items()):
        m['checks'].append({
         'property_id': p, 'quick_cmd': './check %s --tier quick' % p, 'thorough_cmd': './check %s --tier thorough' % p,
         'evidence_file': 'evidence/%s.json' % p, 'replay_cmd_template': './check %s --replay {path}' % p, 'engine': 'pyxsym',
         'level_claimed': {'category': 'model_checking', 'text': c['text'], 'design_ref': c['design']},
         'level_note': c['note'], 'technique': c.get('technique', TECH)})
    json.dump(m, open('MANIFEST.json', 'w'), indent=1)

if __name__ == '__main__':
    main()
