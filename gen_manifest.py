#!/usr/bin/env python3
"""Regenerates MANIFEST.json from the table below (kept in one place so that it is always schema-valid)."""
import json, subprocess

TECH = 'symbolic execution of pyxis MIR (pyxsym) + z3 QF_BV validity queries; counterexamples replayed natively'
CHECKS = {
 'C03': dict(text='For every description in the bounded family (<=2 fields quick / <=3 thorough, all six field kinds, every '
             'combination of address/size/align/packed, numerics < 2^10 / 2^12, pointer sizes 4 and 8) z3 proves on each '
             'symbolic path of the real type-resolution code that the description is accepted iff the realisability '
             'predicate of the property holds; each path also has one concrete witness replayed on the native build.',
             note='bounded: field count, numeric range, declared align <= 64; std/anyhow calls are Python models (listed in the evidence); '
                  'scalar field types are extern types with symbolic (size, align) in {1,2,4,8,16} plus a slice with the real built-in names',
             design='4/C03'),
}
CHECKS['C01'] = dict(text='On every accepted symbolic path of t_layout (same bounded family as C03) z3 proves that laying the '
             'produced region list out by the repr(C) rule puts every named field exactly at its declared address (or at its '
             'predecessor\'s end), that no named field is missing, that the compiler would insert no padding (every offset a multiple '
             'of the region alignment, size = sum of regions and a multiple of the alignment) and that region sizes/alignments equal '
             'the reference table.',
             note='bounded as C03; repr(C) layout rule and scalar alignment table (windows-msvc x86/x86_64) are the trusted reference; token emission of the struct not covered',
             design='4/C01')
CHECKS['C05'] = dict(text='Symbolic execution of function::build / type_definition::build for one impl function over every receiver, 0..3 '
             'parameters of integer/pointer/unresolvable type, every return type incl. unresolvable, every calling-convention value and a '
             'symbolic address over the whole isize range: on accepted paths z3 proves the recorded function has body Address{A} with A the '
             'declared value, the declared receiver/parameters/return type in order; on rejected paths it proves the declaration was not acceptable.  '
             'A second template puts one or two address-bound functions next to virtual and inherited functions of the same or another name: every '
             'declared function must be present exactly once with its own address, and rejection must coincide with a name that is already taken.',
             note='semantic stage only: the emitted wrapper text and its run-time call through the absolute address are not decided (no engine here can execute a call to an integer address); <= 3 parameters',
             design='4/C05')
CHECKS['C08'] = dict(text='Symbolic execution of enum_definition::build for 1..3 (thorough 4) variants, each explicit value symbolic over the whole isize range, '
             'every base type and default-marker placement: accepted paths must have discriminants = explicit value or predecessor+1, size/alignment '
             'of the base type, default index = marked variant, defaultable consistent, no implicit step past isize::MAX; rejected paths must be invalid descriptions; no panics.',
             note='variants bounded (statement says up to 32); emission (`= v as _`, repr, #[default]) not covered; one open known finding (out-of-range values accepted, required by the repository\'s own test)',
             design='4/C08')
CHECKS['C12'] = dict(text='The templates are re-run with every numeric unconstrained (64-bit, negatives included); any path ending in a panic or '
             'exhausting the step budget is reported with a solver-produced description that is replayed on the native build.',
             note='semantic layer only (parser, file I/O outside); field/variant counts bounded; two-field layouts fix the two extern alignments per slice to boundary pairs (two unconstrained 64-bit alignments through gcd/lcm do not finish in the solver); nested types with unconstrained numerics are not covered (that slice never finished and was removed; nested types keep the bounded numerics of C02 and a zero-length slice here); a path whose feasibility the solver cannot decide within its time limit is reported as inconclusive, not as pass',
             design='4/C12')
CHECKS['C04'] = dict(text='Symbolic execution of the vftable construction for 1..4 virtual functions (free signatures up to 2) with symbolic #[index] and table #[size]: '
             'on accepted paths z3 proves every declared function sits in its slot (index, else predecessor+1), all other slots are private thiscall '
             'placeholders, the generated vftable struct lists the same slots with size = slots * pointer width, and the type starts with one private '
             'vftable pointer; on rejected paths it proves the indices/size were contradictory.  A second template gives one virtual function 0..4 parameters of mixed '
             'type whose names may collide with the identifiers the emitted wrapper binds itself (`this`, `f`): slot, receiver, parameter names and types must be the declared ones.',
             note='slot arithmetic and table layout only; the run-time dispatch clause (wrapper loads the table and calls the slot) needs execution of emitted code and is not decided here; indices < 6, size < 8',
             design='4/C04')
CHECKS['C16'] = dict(text='Symbolic execution of function::build and the vftable construction with the calling-convention attribute ranging over absent, the '
             'seven names and an unknown name, receivers none/&self/&mut self, in impl functions, vftable slots (incl. placeholders and the slot\'s '
             'function-pointer type in the generated vftable struct) and derived tables (depth 1 and 2): z3 proves every occurrence carries the '
             'declared convention or the documented default and that the unknown name is rejected.',
             note='semantic values only; the extern "<cc>" token emitted by the backend is CallingConvention::as_str of the checked value and is not executed',
             design='4/C16')
CHECKS['C10'] = dict(text='Symbolic execution of the resolution fix-point over dependency graphs of 2..3 (thorough 4) types in two mutually importing modules '
             '(field types: scalar, by value, pointer, array, #[base], enum, undefined name; targets incl. a non-existent type; rotated definition and '
             'module order): z3 proves accepted <=> all names defined and by-value relation acyclic (closure unrolled), that accepted builds contain '
             'every declared type and field with its declared type, and that the not-terminating error lists exactly the unresolvable types.  A second template '
             'puts a name (built-in, local, pointer, undefined, a type of a module that is / is not imported) in each of the seven positions a description can mention one '
             '(field, enum base, impl parameter / return type, virtual parameter / return type, extern value): accepted <=> every name visible, and each resolves to its definition.',
             note='graph size bounded (<= 4 types, <= 2 fields each, 2 modules; three types with two fields each only for by-value / pointer fields); names template: <= 2 (thorough 3) of the seven positions deviate from u32 at a time',
             design='4/C10')
CHECKS['C11'] = dict(text='Symbolic execution of resolve_string / Module::scope for a name declared with distinct sizes in any subset of four modules (one nested), '
             'with every sequence of up to 2 (thorough 3) type imports, module imports and a missing module, and for a built-in name: z3 proves the '
             'field binds to the provider selected by the precedence chain (last type import, built-in, own module, imported modules in order) and that '
             'the enclosing type has that provider\'s size; no provider <=> rejected.',
             note='use-list length bounded; printed crate:: path in emitted code not executed', design='4/C11')
CHECKS['C14'] = dict(text='Symbolic execution of add_module / add_item / the resolution loop on modules with every combination of a duplicate type or enum declaration, '
             'a user type named like a generated vftable struct, an extern type of the same name and a same-named type in another module: z3 proves '
             'accepted <=> no two declarations share an item path, and that each declared item is in its own module\'s definition set only.',
             note='the all-inputs claim is at item level (incl. rust backend blocks kept complete and in source order); file names, one file per module, each item exactly once in its module\'s file and prologue / epilogue placement are inspected concretely on the files the real backend writes for the accepted witnesses; directory discovery and lib.rs::build are outside',
             design='4/C14')
CHECKS['C15'] = dict(text='Symbolic execution of the singleton / extern-value handling with every address symbolic over the whole isize range and value types over '
             'scalars, pointers, arrays and unresolvable names: on accepted paths z3 proves the stored singleton and extern-value addresses equal the '
             'declared numbers with the declared type and visibility; a missing address, an unresolvable type or a negative number must be rejected.',
             note='semantic stage only: the emitted accessor bodies (pointer indirection, None on null) dereference absolute addresses and cannot be executed by the engines available here; <= 2 extern values',
             design='4/C15')
TECH2 = 'symbolic execution of pyxis MIR (pyxsym) with z3 deciding path feasibility and that each leaf covers exactly one description; outcome compared with a reference model; natively replayed'
CHECKS['C06'] = dict(text='Symbolic execution of vftable::build / resolve_regions over every inheritance shape of the bounded family (two bases with/without tables, '
             'derived type with no / prefix-repeating / non-repeating block, eight single-slot mutations of the prefix, second-level derived type): '
             'for each leaf z3 shows the path condition admits exactly one description, whose outcome must equal the reference model: mutations '
             'rejected, derived tables share the first base\'s pointer (no own field, base_field, table type), own table => one private pointer field at offset 0.',
             note='depth 2, <= 2 bases per type (statement: depth 4, 3 bases); the reference model is Python evaluated per leaf; the emitted vftable() accessor is not executed',
             design='4/C06', technique=TECH2)
CHECKS['C07'] = dict(text='Same exploration with impl blocks, visibility and name clashes as the varying dimensions: the associated-function list of every type must equal the '
             'reference (public base functions and non-first-base virtual functions re-exposed under their name or <field>_<name>, forwarding body '
             'Field{base field, original}, private ones hidden, signature preserved, own functions last).  A second template makes the #[base] fields themselves private: the '
             'forwarders must stay public.',
             note='semantic stage only: forwarding body text, AsRef/AsMut emission and the run-time receiver address (base sub-object offset) are not executed; depth 2, <= 2 bases',
             design='4/C07', technique=TECH2)
TECHB = TECH + '; Kani/CBMC harnesses on the emitted bindings of solver-chosen witness programs'
CHECKS['C02'] = dict(text='Symbolic execution of the resolution of an extern type, an inner type, an enum over every base and an outer type embedding the inner one by value / '
             'as array / by pointer (all numerics symbolic, zero-length arrays included): on accepted paths z3 proves every resolved size/alignment equals the repr(C)/'
             'repr(int) value, that the numbers used for the inner type inside the outer type are the inner type\'s own, and that the compiler would add no padding; '
             'Kani then checks size_of/align_of/offset_of! of the emitted items of sampled witnesses on the 64-bit host.',
             note='numerics < 2^4 (quick) / 2^7; repr(C) rule is the reference for width 4 (no 32-bit target available); Engine B covers width 8 witnesses only', design='4/C02', technique=TECHB)
CHECKS['C09'] = dict(text='Product templates build each description twice in one symbolic run; the hash-map model gives the second build every permutation of the user keys of every '
             'iterated map (nondeterministic choice): z3 proves both builds agree (both fail, or both succeed with equal summaries) for dependency graphs and for '
             'signatures/fields/extern values naming generated vftable types; a difference is confirmed natively by disagreeing fresh processes.',
             note='<= 3 user types (+ a user type colliding with a generated name, + an imported module declaring one); graph / vft slices: one order per map key-set per path, all permutations (8 representative ones beyond 4 keys); scope / import slices: one total order per run, all 24 relative orders of the first 4 keys met; error texts not compared; file discovery / file bytes outside; two open known findings (a signature, or a field next to an import declaring the same name, naming a generated vftable type)', design='4/C09')
CHECKS['C19'] = dict(text='Product template: module m (+ imported n) built without and with an unrelated module u declaring colliding short names (type R, extern S of another '
             'symbolic size, RVftable, enum K, an impl block for R), importing m or not, added first or last; m importing a type by path while the imported-from module gains an unreferenced type whose name extends the imported one; plus a nested module whose enclosing module gains a same-named type: z3 proves '
             'the summaries of the observed modules are identical whenever both builds are accepted.',
             note='summary level (everything write_module reads), not file bytes; one open known finding (type path equal to a nested module path)', design='4/C19')
CHECKS['C20'] = dict(text='Product template builds a description and its rewrite (explicit address = implicit offset, unknown<g> gap vs address, #[size] = natural size, '
             '#[index] = implicit slot, enum value = implicit value, reversed definition order; singly and in all combinations; also with a #[base] field after the gap, in packed types with aligned and misaligned fields, and with the gap written private / pub / documented) '
             'with symbolic sizes/gap/enum value: z3 proves both are accepted or both rejected and the summaries (incl. generated _field_<hex> names as symbolic strings) are identical.',
             note='summary level, not file bytes; numeric spelling (other base) is a parser matter and outside', design='4/C20')
for _p in ('C01', 'C04', 'C06', 'C07', 'C08', 'C16'):
    CHECKS[_p]['technique'] = TECHB if _p not in ('C06', 'C07') else TECH2 + '; Kani/CBMC harnesses on the emitted bindings of witness programs'
CHECKS['C04']['note'] = 'indices < 6, table size < 8; run-time dispatch (wrapper loads the table pointer, calls its slot once with this + arguments in order, returns the result) is checked by Kani on the emitted code of sampled witnesses with symbolic arguments, 64-bit host, calling conventions normalised to "C"'
CHECKS['C06']['note'] = 'depth 2, <= 2 bases per type; the reference model is Python evaluated per leaf; Kani checks on emitted witness programs that vftable() returns the word stored in the base sub-object and that wrappers dispatch through inherited tables'
CHECKS['C07']['note'] = 'depth 2, <= 2 bases; Kani checks on emitted witness programs that forwarded virtual functions see the base sub-object address as receiver and that AsRef/AsMut return it; a probe outside the emitted module names every public item (rustc rejects it if the backend emitted less visibility than resolved); forwarding to address-bound functions cannot be executed'
CHECKS['C08']['note'] = 'variants bounded (statement says up to 32); Kani checks `Variant as base`, size/align and Default::default() on emitted witness enums; one open known finding (out-of-range values accepted, required by the repository\'s own test)'
CHECKS['C16']['note'] = 'the extern "<cc>" strings of every vftable slot and address-bound wrapper in the emitted text of sampled witnesses are compared with the resolved conventions'
CHECKS['C01']['note'] += '; Kani checks offset_of!/size_of/align_of of the emitted struct for sampled width-8 witnesses'
CHECKS['C05']['technique'] = TECHB
CHECKS['C05']['note'] = '<= 3 parameters; run-time clause on sampled witnesses by Kani on the emitted wrapper: the literal address is redirected to a recording helper (CBMC cannot call an integer address), the wrapper must use the declared address once, call once with receiver + symbolic arguments in order and return the callee value; ABI string compared textually'
CHECKS['C15']['technique'] = TECHB
CHECKS['C15']['note'] = '<= 2 extern values; run-time clause on sampled witnesses by Kani on the emitted accessors with the literal address redirected to harness memory: struct get() is None iff the word is null else the pointee, enum get() returns the stored value, get_<name>() returns the location; each uses the declared address exactly once'
NA = {}
ALL = [json.loads(l)['id'] for l in open('properties.jsonl')]
NA['C13'] = 'whether the emitted crate type-checks is decided by rustc, not by a solver: there is no symbolic dimension to encode (Engine B compiles every witness program as a side effect and reports compile failures, but no C13 verdict is claimed)'
CHECKS['C17'] = dict(text='Symbolic execution of the semantic stage for a module with a documented type (public/private, every subset of copyable / cloneable / defaultable, '
             'packed or aligned), two fields, an address-bound function, a virtual function and an enum with the same markers, over all flag vectors of the type group with the '
             'rest pinned and vice versa: z3 proves on every path that the resolved model carries exactly the declared visibility, markers (copyable implies cloneable), packing flag and '
             'doc lines on every item, that the vftable pointer field and the generated table type carry none, and that a virtual function\'s doc and visibility are on its wrapper and its slot.  '
             'Sampled witnesses are then emitted with the real backend: rustc-evaluated probes in Kani harnesses decide which of Copy / Clone / Default each emitted type implements and that packed '
             'types have alignment 1, a module outside the emitted one names every public item, and the emitted text is compared with the model for `pub`, derive lists, repr attributes and doc lines '
             '(each doc line on the counterparts of its item and nowhere else).',
             note='one module, one type with two fields, one impl function, one virtual function, one enum; 0..2 doc lines per item; the two flag groups are varied separately, not as a full product; '
                  'the all-inputs part is the semantic model — the emitted text is decided for the sampled witnesses (24 quick / 96 thorough); inherited copies of documented functions and the parser step (doc comments to doc attributes) are outside',
             design='4/C17', technique=TECHB)
NA['C18'] = 'the parser is a thin layer over syn::ParseStream and proc_macro2\'s lexer; neither can be executed by Kani in usable time (measured, DESIGN.md section 1) nor interpreted from the MIR dump (external crates), and the quantifier ranges over grammar derivations, which a solver does not decide better than a generator'
for p in ALL:
    if p not in CHECKS and p not in NA:
        NA[p] = 'not encoded'

def main():
    hooks_commits = []
    m = {
     'version': 1,
     'setup_cmd': './setup.sh',
     'hooks': {'guard': '--cfg pyxis_verif', 'enable': 'RUSTFLAGS="--cfg pyxis_verif" (set by pyxsym/build.py when it builds the native replay binary from a scratch copy of /repo)',
               'baseline_off_cmd': 'cd /repo && cargo test --workspace --no-fail-fast --offline',
               'source_commits': hooks_commits, 'add_only': True},
     'engines': [{'name': 'pyxsym', 'path': 'pyxsym/', 'serves_properties': sorted(CHECKS),
                  'kind_free_text': 'symbolic interpreter over the nightly MIR dump of /repo (regenerated on every run) with z3; native replay binary built from the same scratch copy'}],
     'checks': [],
     'not_applicable': [{'property_id': p, 'reason': r} for p, r in sorted(NA.items())],
     'notes': 'exit 0 = held on everything explored; exit 1 + VIOLATION line = reproduced violation; exit 2 = inconclusive (unsupported construct, model mismatch, solver unknown, build failure).',
    }
    for p, c in sorted(CHECKS.items()):
        m['checks'].append({
         'property_id': p, 'quick_cmd': './check %s --tier quick' % p, 'thorough_cmd': './check %s --tier thorough' % p,
         'evidence_file': 'evidence/%s.json' % p, 'replay_cmd_template': './check %s --replay {path}' % p, 'engine': 'pyxsym',
         'level_claimed': {'category': 'model_checking', 'text': c['text'], 'design_ref': c['design']},
         'level_note': c['note'], 'technique': c.get('technique', TECH)})
    json.dump(m, open('MANIFEST.json', 'w'), indent=1)

if __name__ == '__main__':
    main()
