"""Property-check runner: slices of a template's parameter space are explored symbolically in parallel, each leaf's
queries are decided by z3 inside the worker, every leaf gets one witness replayed on the native build (differential
validation of the interpreter), counterexamples are replayed natively before they are reported, and known findings are
excluded by region so that any other violation of the same property still alarms."""
import os, sys, json, time, hashlib, random, traceback, shutil
import z3
from . import engine
from .session import Session, sym_args, args_value, val_to_py, concretize_py, to_i64
from .program import Unsupported
from .build import BuildError, VERIF
from .values import SymStr

EXIT_OK, EXIT_VIOLATION, EXIT_INCONCLUSIVE = 0, 1, 2


class Slice:
    def __init__(self, name, template, nparams, assume, opts=None, ctx=None):
        self.name = name; self.template = template; self.nparams = nparams; self.assume = assume
        self.opts = opts or {}; self.ctx = ctx or {}


class Query:
    """one obligation on one leaf: `negation` must be unsatisfiable together with assumptions and path condition"""
    def __init__(self, name, negation):
        self.name = name; self.negation = negation


# ------------------------------------------------------------------ known findings
def load_findings(prop_id):
    p = os.path.join(VERIF, 'known-findings.json')
    if not os.path.exists(p): return []
    data = json.load(open(p))
    return [f for f in data.get('findings', []) if f.get('property') == prop_id and f.get('status', 'open') == 'open']


def finding_region(f, a, env_extra=None):
    """evaluate the finding's region predicate (a small z3 expression over the parameter vector `a`)"""
    env = {'a': a, 'And': z3.And, 'Or': z3.Or, 'Not': z3.Not, 'ULT': z3.ULT, 'ULE': z3.ULE, 'UGT': z3.UGT, 'UGE': z3.UGE,
           'URem': z3.URem, 'If': z3.If, 'V': lambda n: z3.BitVecVal(n, 64), 'Implies': z3.Implies,
           'pow2': lambda x: z3.And(x != 0, (x & (x - 1)) == 0), 'True': True, 'False': False,
           'slt': lambda x, y: x < y, 'sgt': lambda x, y: x > y}
    if env_extra: env.update(env_extra)
    return eval(f['region'], {'__builtins__': {}}, env)


# ------------------------------------------------------------------ worker side
_W = {}


def _leaf_fn(I, leaf):
    prop = _W['prop']; a = _W['a']; sl = _W['slice']; findings = _W['findings']
    res = {'kind': leaf.kind, 'steps': leaf.steps, 'forks': leaf.forks, 'ndec': len(leaf.decisions), 'queries': [],
           'site': leaf.site}
    s = I.solver
    # witness of this leaf (differential validation + sample)
    m = I.model
    if m is None:
        r = s.check()
        if r == z3.unknown:
            r = I.check_split([])
        if r == z3.unsat:
            res['unsupported'] = 'leaf path condition not satisfiable'
            res['decisions'] = sorted(leaf.decisions.items())
            return res
        m = s.model() if r == z3.sat else None
    wargs = [m.eval(x, model_completion=True).as_long() for x in a] if m is not None else None
    res['witness'] = wargs
    if m is not None and getattr(prop, 'SKIP_VALIDATION_IN_KNOWN_REGIONS', False):
        # (C09) a description inside a known order-dependence finding has no single native outcome to compare with
        for f in findings:
            reg = finding_region(f, a, prop.region_env(a, sl) if hasattr(prop, 'region_env') else None)
            if z3.is_true(m.eval(reg, model_completion=True)):
                res['witness'] = None; break
    if leaf.kind == 'ret':
        py = val_to_py(leaf.value)
        res['expected'] = concretize_py(py, m) if m is not None else None
        if isinstance(py, list) and py and isinstance(py[0], str): res['outcome'] = py[0]
        elif isinstance(py, list) and py and all(isinstance(x, list) and x and x[0] in ('ok', 'err') for x in py):
            res['outcome'] = '/'.join(x[0] for x in py)       # product template
        else: res['outcome'] = 'val'
    else:
        py = None
        res['expected'] = {leaf.kind: leaf.value}
        res['outcome'] = leaf.kind
    try:
        queries = prop.leaf_queries(I, a, leaf, py, sl)
    except Unsupported as e:
        res['unsupported'] = 'leaf_queries: %s' % e
        return res
    for q in queries:
        t0 = time.time()
        qr = {'name': q.name, 'status': 'unsat', 'known': [], 'cex': None}
        s.push()
        try:
            s.add(q.negation)
            for _ in range(64):
                r = s.check()
                if r == z3.unknown:
                    # first fallback: a fresh, non-incremental solver (full QF_BV preprocessing) with a longer limit
                    s2 = z3.SolverFor('QF_BV'); s2.set('timeout', 90000)
                    for c_ in s.assertions(): s2.add(c_)
                    r = s2.check()
                    qr['fresh'] = str(r)
                    if r == z3.sat:
                        # re-establish the model in the incremental solver so that the code below can read it
                        mm2 = s2.model()
                        fix = [x == mm2.eval(x, model_completion=True) for x in a]
                        r = s.check(*fix)
                if r == z3.unknown:
                    qr['split'] = True
                    saved_pc = I.pc
                    I.pc = list(I.pc) + [q.negation]
                    try: r = I.check_split([])
                    finally: I.pc = saved_pc
                if r == z3.unsat: break
                if r == z3.unknown:
                    qr['status'] = 'unknown'; qr['reason'] = s.reason_unknown(); break
                mm = s.model()
                cargs = [mm.eval(x, model_completion=True).as_long() for x in a]
                exp = concretize_py(py, mm) if py is not None else {leaf.kind: leaf.value}
                hit = None
                for f in findings:
                    if f.get('query') and f['query'] != q.name: continue      # a finding may be tied to one query only
                    reg = finding_region(f, a, prop.region_env(a, sl) if hasattr(prop, 'region_env') else None)
                    if z3.is_true(mm.eval(reg, model_completion=True)):
                        hit = (f, reg); break
                if hit is not None:
                    qr['known'].append({'role': hit[0]['role'], 'args': cargs, 'expected': exp})
                    s.add(z3.Not(hit[1]))
                    continue
                qr['status'] = 'sat'; qr['cex'] = {'args': cargs, 'expected': exp}
                break
            else:
                qr['status'] = 'unknown'; qr['reason'] = 'too many known-finding exclusions'
        finally:
            s.pop()
        qr['s'] = round(time.time() - t0, 3)
        if qr['s'] > 5: qr['slow_pc'] = [str(c) for c in I.pc]
        res['queries'].append(qr)
    return res


# ------------------------------------------------------------------ comparison of native and interpreted outcomes
def same_outcome(native, expected):
    if isinstance(expected, dict):
        if 'panic' in expected: return isinstance(native, dict) and ('panic' in native or 'crash' in native)
        if 'unbounded' in expected: return isinstance(native, dict) and ('timeout' in native or 'crash' in native)
        return False
    if isinstance(expected, list) and expected and expected[0] == 'err':
        # Both must be errors.  The text is not compared strictly: which of several independent errors is reported
        # first (and the `while processing X` context) depends on the hash-map order of the native run.
        if isinstance(native, list) and native and native[0] == 'err':
            if not _same(native, expected): ERR_TEXT_DIFFS[0] += 1
            return True
        return False
    return _same(native, expected)


ERR_TEXT_DIFFS = [0]


def _same(n, e):
    if isinstance(e, list):
        return isinstance(n, list) and len(n) == len(e) and all(_same(x, y) for x, y in zip(n, e))
    if isinstance(e, str) and '<?>' in e:
        return isinstance(n, str) and n.startswith(e.split('<?>')[0])
    if isinstance(e, bool) or isinstance(n, bool): return n is e or n == e
    if isinstance(e, int) and isinstance(n, int): return (n - e) % (1 << 64) == 0
    return n == e


# ------------------------------------------------------------------ master side
class Run:
    def __init__(self, prop, tier, seed):
        self.prop = prop; self.tier = tier; self.seed = seed
        self.t0 = time.time()
        self.leaves = 0; self.forks = 0; self.validated = 0; self.queries = 0; self.unsat = 0; self.sat = 0
        self.unknown = 0; self.solver_s = 0.0; self.interp_s = 0.0
        self.violations = []; self.known = {}; self.mismatches = []; self.unsupported = []
        self.samples = []; self.slices = []; self.called = set(); self.modelled = set(); self.summarized = set()
        self.outcomes = {}
        self.ok_witnesses = {}
        self.engine_b = None

    def run(self):
        prop = self.prop
        try:
            S = Session()
        except BuildError as e:
            print('INCONCLUSIVE: cannot build the scratch copy of /repo: %s' % str(e)[-3000:])
            self.write_evidence(extra={'build_error': str(e)[-2000:]})
            return EXIT_INCONCLUSIVE
        self.S = S
        findings = load_findings(prop.ID)
        rng = random.Random(self.seed)
        only = os.environ.get('VERIF_SLICES')      # development aid: a filtered run is never a verdict (exit 2, no evidence written)
        for sl in prop.slices(self.tier, rng):
            if only and not any(x in sl.name for x in only.split(',')): continue
            self.run_slice(S, sl, findings)
        if only: self.unsupported.append({'unsupported': 'VERIF_SLICES filter active: partial run'})
        if hasattr(prop, 'FILE_CHECK') and not self.violations:
            self.file_check_phase(S, prop.FILE_CHECK)
        try:
            if hasattr(prop, 'ENGINE_B') and not self.violations:
                cfgs = prop.ENGINE_B if isinstance(prop.ENGINE_B, list) else [prop.ENGINE_B]
                for cfg in cfgs: self.engine_b_phase(S, cfg)
        finally:
            S.close()
        return self.finish()

    # ------------------------------------------------------------------ file-level clauses on emitted witnesses (concrete, real backend)
    def file_check_phase(self, S, cfg):
        from . import engineb as B
        K = cfg['max_quick'] if self.tier == 'quick' else cfg['max_thorough']
        pool = [list(x) for x in cfg.get('fixed', [])] + list(self.ok_witnesses.get(cfg['template'], []))
        seen = set(); chosen = []
        for a in pool:
            k = tuple(int(x) for x in a)
            if k in seen: continue
            seen.add(k); chosen.append(a)
        work = os.path.join(os.path.dirname(S.art['dir']), 'kani', self.prop.ID + '-files-' + cfg['template'])
        os.makedirs(work, exist_ok=True)
        n = 0
        for a in chosen[:K]:
            try:
                summ, files = B.emit(S, cfg['template'], a, work)
            except B.EmitError as e:
                self.unsupported.append({'unsupported': 'file check emit: %s' % str(e)[:600]}); continue
            if summ[0] != 'ok': continue
            n += 1
            for pr in cfg['fn'](summ, files, a):
                self.violations.append({'slice': 'emitted-files', 'template': cfg['template'], 'query': 'emitted-files:' + pr[:80], 'args': [to_i64(x) for x in a],
                                        'expected': 'one file per module; every declared item once, in the file of its module', 'native': pr})
        if self.engine_b is None: self.engine_b = []
        self.engine_b.append({'template': cfg['template'], 'file_level_witnesses': n, 'kinds': ['emitted-files']})
        self.validated += n
        print('  emitted files: %d witness programs inspected' % n, flush=True)

    # ------------------------------------------------------------------ Engine B: Kani on the emitted bindings
    def engine_b_phase(self, S, cfg):
        from . import engineb as B
        import random
        rng = random.Random(self.seed)
        K = cfg['max_quick'] if self.tier == 'quick' else cfg['max_thorough']
        pool = list(self.ok_witnesses.get(cfg['template'], []))
        for extra in cfg.get('fixed', []): pool.insert(0, extra)
        if not pool:
            self.unsupported.append({'unsupported': 'Engine B: no accepted pointer-size-8 witness from Engine A for ' + cfg['template']})
            return
        # spread the choice over the leaves (they come grouped by exploration order)
        fixed = cfg.get('fixed', [])
        rest = pool[len(fixed):]
        rng.shuffle(rest)
        # spread the sample over structurally different descriptions: bucket every parameter (0, 1, small, large) and take
        # one witness per distinct bucket vector, round-robin, before taking a second one of any
        def shape(a):
            return tuple(x if x < 10 else (10 if x < 64 else 11) for x in (int(v) & ((1 << 64) - 1) for v in a))
        groups = {}
        for a in rest: groups.setdefault(shape(a), []).append(a)
        order = list(groups.values()); rng.shuffle(order)
        spread = []
        while order and len(spread) < len(rest):
            nxt = []
            for g in order:
                spread.append(g.pop())
                if g: nxt.append(g)
            order = nxt
        chosen = (fixed + spread)[:K * 8]
        work = os.path.join(os.path.dirname(S.art['dir']), 'kani', self.prop.ID + '-' + cfg['template'])
        os.makedirs(work, exist_ok=True)
        ws = []; t0 = time.time()
        info = {'witnesses': 0, 'harnesses': 0, 'verified': 0, 'failed': [], 'seconds': 0, 'kinds': cfg['kinds'], 'abi_checked': 0}
        for i, a in enumerate(chosen):
            try:
                summ, files = B.emit(S, cfg['template'], a, work)
            except B.EmitError as e:
                self.unsupported.append({'unsupported': 'Engine B emit: %s' % e}); continue
            if summ and isinstance(summ[0], list):
                if cfg.get('pair_bytes') and all(isinstance(x, list) and x and x[0] == 'ok' for x in summ):
                    # both descriptions of the pair were emitted with the real backend: the files must be byte-identical
                    builds = B.emitted_builds(work)
                    info['pairs_compared'] = info.get('pairs_compared', 0) + 1
                    if len(builds) == 2 and builds[0] != builds[1]:
                        diff = [k for k in sorted(set(builds[0]) | set(builds[1])) if builds[0].get(k) != builds[1].get(k)]
                        self.violations.append({'slice': 'engine-b', 'template': cfg['template'], 'query': 'emitted-files-are-byte-identical', 'args': [to_i64(x) for x in a],
                                                'expected': 'both descriptions of the pair emit the same bytes', 'native': 'files that differ: %s' % diff})
                    elif len(builds) != 2:
                        self.unsupported.append({'unsupported': 'Engine B: expected the files of two builds, found %d' % len(builds)})
                summ = summ[-1]      # product template: the files on disk are the last build's
            if summ[0] != 'ok' or 'm.rs' not in files:
                self.mismatches.append({'slice': 'engine-b', 'args': a, 'interpreted': 'ok', 'native': summ}); continue
            if cfg.get('accept') and not cfg['accept'](summ): continue
            if not B.externs_realisable(summ): continue      # an extern type whose size is not a multiple of its alignment cannot be supplied
            if len(ws) >= K: break
            w = B.Witness(i, cfg['template'], a, summ, files['m.rs'])
            if cfg.get('marks'):
                bad = B.marks_mismatch(w)
                info['marks_checked'] = info.get('marks_checked', 0) + 1
                if bad:
                    self.violations.append({'slice': 'engine-b', 'template': cfg['template'], 'query': 'emitted-visibility-derives-packing-docs', 'args': [to_i64(x) for x in a],
                                            'expected': 'visibility, derives, packing and doc comments of the resolved model', 'native': bad})
            if cfg.get('abi'):
                bad = B.abi_mismatch(w)
                info['abi_checked'] += 1
                if bad:
                    self.violations.append({'slice': 'engine-b', 'template': cfg['template'], 'query': 'emitted-abi-strings', 'args': [to_i64(x) for x in a],
                                            'expected': 'the convention of every slot / wrapper in the summary', 'native': bad})
            ws.append(w)
        if not ws: return
        crate, names = B.build_crate(work, ws, kinds=cfg['kinds'])
        r = B.run_kani(crate, names)
        info.update(witnesses=len(ws), harnesses=len(names), seconds=r['seconds'], verified=r['summary']['ok'], failed=r['summary']['failed'])
        if self.engine_b is None: self.engine_b = []
        info['template'] = cfg['template']
        self.engine_b.append(info)
        print('  engine B: %d witness programs, %d harnesses, %d verified, failed=%s, %.1fs' % (len(ws), len(names), r['summary']['ok'], r['summary']['failed'], r['seconds']), flush=True)
        if r['compile_error']:
            # code emitted by pyxis (or the generated harness) does not compile: decide which
            txt = r['compile_error']
            import re as _re
            m609 = _re.search(r'E0609\]: no field `(\w+)` on type `[\w:]*?(\w+)`', txt)
            if m609 and not m609.group(1).startswith('_'):
                # the harness names every field the semantic model lists: a field missing from the emitted struct
                self.violations.append({'slice': 'engine-b', 'template': cfg['template'], 'query': 'emitted-struct-has-field:%s.%s' % (m609.group(2), m609.group(1)),
                                        'args': [to_i64(x) for x in ws[0].args], 'expected': 'field present in the emitted struct', 'native': txt[:1200]})
            elif _re.search(r'error\[E0599\]: no (?:associated function or constant|function or associated item|method) named `(\w+)` found for (?:struct|enum) `[\w:]*?(\w+)`', txt) \
                    or _re.search(r'error\[E0425\]: cannot find function `(get_\w+)`', txt):
                # the harness calls every accessor / wrapper the semantic model lists: one of them is missing from the emitted text
                mm = _re.search(r'error\[E0599\]: no (?:associated function or constant|function or associated item|method) named `(\w+)` found for (?:struct|enum) `[\w:]*?(\w+)`', txt)
                what = ('%s::%s' % (mm.group(2), mm.group(1))) if mm else _re.search(r'cannot find function `(get_\w+)`', txt).group(1)
                mw = _re.search(r'--> src/w(\d+)/m\.rs', txt)
                wbad = [w for w in ws if mw and w.idx == int(mw.group(1))] or ws
                self.violations.append({'slice': 'engine-b', 'template': cfg['template'], 'query': 'emitted-module-has-function:' + what, 'args': [to_i64(x) for x in wbad[0].args],
                                        'expected': 'every accessor / wrapper of the resolved model is present in the emitted module', 'native': txt[:1500]})
            elif _re.search(r'error\[E0308\][^\n]*\n[^\n]*\n[^\n]*\n[^\n]*typed_accessor_result', txt) or ('typed_accessor_result' in txt and 'E0308' in txt):
                mw = _re.search(r'--> src/w(\d+)/m\.rs:\d+:\d+\n[^\n]*\n[^\n]*typed_accessor_result', txt)
                wbad = [w for w in ws if mw and w.idx == int(mw.group(1))] or ws
                self.violations.append({'slice': 'engine-b', 'template': cfg['template'], 'query': 'vftable-accessor-returns-the-type-of-the-resolved-table', 'args': [to_i64(x) for x in wbad[0].args],
                                        'expected': 'fn vftable(&self) -> *const <table type of the resolved model>', 'native': txt[:1500]})
            elif _re.search(r'error\[E06(03|16|24)\][^\n]*\n\s*--> src/lib\.rs', txt):
                # the probe outside the emitted module names everything the semantic model marks public
                self.violations.append({'slice': 'engine-b', 'template': cfg['template'], 'query': 'resolved-public-item-is-emitted-public', 'args': [to_i64(x) for x in ws[0].args],
                                        'expected': 'every item / field / function that is public in the resolved model is reachable from outside the emitted module',
                                        'native': txt[:1500]})
            elif self._call_error_in_emitted_text(txt, ws):
                w_bad, msg = self._call_error_in_emitted_text(txt, ws)
                # a call expression of an emitted wrapper does not type-check (wrong argument, wrong count, callee not a function)
                self.violations.append({'slice': 'engine-b', 'template': cfg['template'], 'query': 'emitted-wrapper-call-type-checks', 'args': [to_i64(x) for x in w_bad.args],
                                        'expected': 'the call inside every emitted wrapper passes the receiver and the declared arguments', 'native': msg[:1500]})
            elif 'cannot transmute between types of different sizes' in txt or 'E0512' in txt:
                self.violations.append({'slice': 'engine-b', 'template': cfg['template'], 'query': 'emitted-size-check-compiles', 'args': [to_i64(x) for x in ws[0].args],
                                        'expected': 'rustc accepts transmute::<[u8; size], T>', 'native': txt[:1500]})
            else:
                self.unsupported.append({'unsupported': 'Engine B: crate does not compile: ' + txt[:1500]})
            return
        if 'canary_must_fail' not in r['summary']['failed']:
            self.unsupported.append({'unsupported': 'Engine B vacuity: the canary harness was not reported as failed'}); return
        for hname in r['summary']['failed']:
            if hname == 'canary_must_fail': continue
            w = names.get(hname)
            self.violations.append({'slice': 'engine-b', 'template': cfg['template'], 'query': 'kani:' + hname,
                                    'args': [to_i64(x) for x in (w.args if w else [])], 'expected': 'harness verified', 'native': 'VERIFICATION FAILED ' + hname,
                                    'engine_b': True})
        if r['summary']['ok'] + len(r['summary']['failed']) < len(names) + 1:
            self.unsupported.append({'unsupported': 'Engine B: %d of %d harnesses produced no verdict' % (len(names) + 1 - r['summary']['ok'] - len(r['summary']['failed']), len(names) + 1)})
        self.validated += len(ws)
        shutil.rmtree(os.path.join(crate, 'target', 'kani'), ignore_errors=True) if False else None

    @staticmethod
    def _call_error_in_emitted_text(txt, ws):
        """(witness, message) of the first E0308 / E0618 / E0061 whose location lies inside the text pyxis emitted (not in the harness)"""
        import re as _re
        for m in _re.finditer(r'error\[(E0308|E0618|E0061)\][^\n]*\n\s*--> src/w(\d+)/m\.rs:(\d+)', txt):
            for w in ws:
                if w.idx == int(m.group(2)) and int(m.group(3)) <= getattr(w, 'emitted_lines', 0):
                    return w, txt[m.start():m.start() + 1500]
        return None

    def run_slice(self, S, sl, findings):
        a = sym_args(sl.nparams)
        A = sl.assume(a)
        I = S.interp(assumptions=A, max_steps=sl.opts.get('max_steps', 400000))
        I.summarize = set(sl.opts.get('summarize', ()))
        if 'map_order' in sl.opts: I.map_order = sl.opts['map_order']
        _W.update(prop=self.prop, a=a, slice=sl, findings=findings)
        t = time.time()
        info = {'slice': sl.name, 'template': sl.template, 'leaves': 0, 'wall_s': 0, 'solver_s': 0, 'truncated': False, 'outcomes': {}}
        self.query_s = getattr(self, 'query_s', 0.0)
        def on_results(batch):
            for r in batch:
                info['leaves'] += 1
                self._process_leaf(S, sl, info, r)
        _, st = engine.explore_parallel(I, sl.template, [args_value(a)], _leaf_fn,
                                        time_limit=sl.opts.get('time_limit', 900 if self.tier == 'quick' else 5400), on_results=on_results)
        info.update(wall_s=round(time.time() - t, 1), solver_s=round(st['solver'], 1), truncated=st['truncated'])
        self.solver_s += st['solver']; self.interp_s += st['worker_wall'] - st['solver']
        self.called.update(st['called']); self.modelled.update(st['modelled']); self.summarized.update(st['summarized'])
        if st['truncated']: self.unsupported.append({'slice': sl.name, 'unsupported': 'exploration truncated (time/leaf limit)'})
        self.slices.append(info)
        print('  slice %-28s leaves=%-6d wall=%.1fs solver=%.1fs outcomes=%s' % (sl.name, info['leaves'], info['wall_s'], st['solver'],
                                                                                info['outcomes']), flush=True)
        # vacuity guard: a slice must reach what it says it reaches
        for want in sl.opts.get('must_reach', ()):
            if info['outcomes'].get(want, 0) == 0:
                self.unsupported.append({'slice': sl.name, 'unsupported': 'vacuity: no `%s` leaf reached' % want})

    def _process_leaf(self, S, sl, info, r):
        if 'unsupported' in r:
            r = dict(r); r['slice'] = sl.name
            self.unsupported.append(r); return
        self.leaves += 1; self.forks += r['forks']
        info['outcomes'][r['outcome']] = info['outcomes'].get(r['outcome'], 0) + 1
        if r['outcome'] in ('ok', 'ok/ok') and r.get('witness') and r['witness'][0] == 8 and all(q['status'] == 'unsat' and not q['known'] for q in r['queries']):
            self.ok_witnesses.setdefault(sl.template, []).append(r['witness'])
        # differential validation of the leaf's witness on the native build
        if r['witness'] is None:
            self.unvalidated = getattr(self, 'unvalidated', 0) + 1
            continue_validation = False
        else:
            continue_validation = True
        if continue_validation and r['kind'] == 'unbounded':
            # every such replay runs into the time/memory limit: confirm a few per slice, not hundreds
            self._unb = getattr(self, '_unb', 0) + 1
            if self._unb > 2:
                continue_validation = False; self.unvalidated = getattr(self, 'unvalidated', 0) + 1
        if not continue_validation:
            nat = None
        elif r['kind'] == 'unbounded':
            nat = S.replay_once(sl.template, r['witness'], timeout=20)
        else:
            nat = S.replay(sl.template, r['witness'])
        if not continue_validation:
            pass
        elif getattr(self.prop, 'same_outcome', same_outcome)(nat, r['expected']):
            self.validated += 1
        else:
            self.mismatches.append({'slice': sl.name, 'args': r['witness'], 'interpreted': r['expected'], 'native': nat})
        if continue_validation and len(self.samples) < 12 and (self.leaves % 37 == 1 or len(self.samples) < 3):
            self.samples.append({'slice': sl.name, 'args': [to_i64(x) for x in r['witness']], 'outcome': r['outcome'],
                                 'native': _short(nat), 'queries': [(q['name'], q['status']) for q in r['queries']]})
        for q in r['queries']:
            self.queries += 1
            for k in q['known']:
                nat = self.native(S, sl, k['args'], k['expected'])
                confirm = getattr(self.prop, 'native_confirm', None)
                if confirm is not None:
                    okk, nat = confirm(S, sl, k['args'], k['expected'], q['name'])
                else:
                    okk = same_outcome(nat, k['expected'])
                if okk:
                    self.validated += 1
                    self.known.setdefault(k['role'], {'count': 0, 'example': None, 'query': q['name']})
                    self.known[k['role']]['count'] += 1
                    self.known[k['role']]['example'] = self.known[k['role']]['example'] or {'args': [to_i64(x) for x in k['args']], 'native': _short(nat)}
                else:
                    self.mismatches.append({'slice': sl.name, 'args': k['args'], 'interpreted': k['expected'], 'native': nat})
            if q['status'] == 'unsat': self.unsat += 1
            elif q['status'] == 'unknown':
                self.unknown += 1
                self.unsupported.append({'slice': sl.name, 'unsupported': 'solver unknown on %s: %s' % (q['name'], q.get('reason'))})
            else:
                self.sat += 1
                c = q['cex']
                if isinstance(c['expected'], dict) and 'unbounded' in c['expected']:
                    key = (sl.name, q['name'])
                    self._unb_confirmed = getattr(self, '_unb_confirmed', set())
                    if key in self._unb_confirmed:
                        self.duplicates = getattr(self, 'duplicates', 0) + 1
                        continue       # same loop site already confirmed natively for this slice
                nat = self.native(S, sl, c['args'], c['expected'])
                confirm = getattr(self.prop, 'native_confirm', None)
                if confirm is not None:
                    ok, nat = confirm(S, sl, c['args'], c['expected'], q['name'])
                else:
                    ok = same_outcome(nat, c['expected'])
                if ok:
                    self.validated += 1
                    if isinstance(c['expected'], dict) and 'unbounded' in c['expected']:
                        self._unb_confirmed.add((sl.name, q['name']))
                    self.violations.append({'slice': sl.name, 'template': sl.template, 'query': q['name'], 'args': [to_i64(x) for x in c['args']],
                                            'expected': c['expected'], 'native': nat})
                else:
                    self.mismatches.append({'slice': sl.name, 'args': c['args'], 'interpreted': c['expected'], 'native': nat,
                                            'query': q['name']})


    def native(self, S, sl, args, expected):
        if isinstance(expected, dict) and 'unbounded' in expected:
            return S.replay_once(sl.template, args, timeout=20)
        return S.replay(sl.template, args)

    def finish(self):
        prop = self.prop
        pid = prop.ID
        code = EXIT_OK
        for role, k in sorted(self.known.items()):
            print('KNOWN-FINDING: property=%s %s (%d leaves; e.g. args=%s)' % (pid, role, k['count'], k['example']['args']))
        if self.mismatches:
            code = EXIT_INCONCLUSIVE
            for mm in self.mismatches[:5]:
                print('MODEL-MISMATCH: %s' % json.dumps(mm)[:700])
        if self.unsupported:
            code = EXIT_INCONCLUSIVE
            seen = set()
            for u in self.unsupported:
                key = u.get('unsupported', '')[:200]
                if key in seen: continue
                seen.add(key)
                txt = json.dumps(u)
                # for an internal error the end of the traceback says what happened
                print('INCONCLUSIVE: %s' % (txt[:1200] if 'internal error' not in txt else txt[:60] + ' ... ' + txt[-900:]))
                if len(seen) > 8: break
        if self.violations:
            code = EXIT_VIOLATION
            os.makedirs(os.path.join(VERIF, 'replays', pid), exist_ok=True)
            seen = set()
            for v in self.violations:
                key = (v['query'], v['slice'])
                if key in seen: continue
                seen.add(key)
                h = hashlib.sha256(json.dumps([v['template'], v['args']]).encode()).hexdigest()[:12]
                path = os.path.join(VERIF, 'replays', pid, h + '.json')
                v = dict(v)
                if hasattr(prop, 'describe'):
                    try: v['description'] = prop.describe(v['template'], v['args'])
                    except Exception: pass
                v['property'] = pid
                json.dump(v, open(path, 'w'), indent=1)
                print('VIOLATION property=%s replay=%s' % (pid, path))
                print('  query=%s args=%s' % (v['query'], v['args']))
                if 'description' in v: print('  ' + v['description'].replace('\n', '\n  '))
                print('  native outcome: %s' % _short(v['native'], 400))
        self.write_evidence()
        print('%s: %s  leaves=%d queries=%d unsat=%d sat=%d unknown=%d validated=%d mismatches=%d wall=%.1fs' % (
            pid, {0: 'PASS', 1: 'VIOLATION', 2: 'INCONCLUSIVE'}[code], self.leaves, self.queries, self.unsat, self.sat,
            self.unknown, self.validated, len(self.mismatches), time.time() - self.t0))
        return code

    def write_evidence(self, extra=None):
        if os.environ.get('VERIF_SLICES'): return
        prop = self.prop
        os.makedirs(os.path.join(VERIF, 'evidence'), exist_ok=True)
        ev = {
            'property_id': prop.ID, 'tier': self.tier, 'seed': self.seed, 'level': 'model_checking',
            'coverage': {
                'states': self.leaves, 'transitions': self.forks,
                'traces_validated_against_impl': self.validated,
                'samples': self.samples or [{'note': 'no leaf explored'}],
                'exhaustive': False,
                'explanation': getattr(prop, 'EXPLANATION', ''),
                'bounds': getattr(prop, 'bounds', lambda t: {})(self.tier),
                'slices': self.slices,
                'queries_discharged': self.queries, 'queries_unsat': self.unsat, 'queries_sat': self.sat,
                'queries_unknown': self.unknown,
                'solver': 'z3 %s (python API, QF_BV)' % z3.get_version_string(),
                'solver_seconds': round(self.solver_s, 1), 'interpretation_seconds': round(self.interp_s, 1),
                'functions_interpreted_from_mir': sorted(self.called),
                'functions_summarized': sorted(self.summarized),
                'std_models_used': sorted(self.modelled),
                'known_findings_hit': {k: v['count'] for k, v in self.known.items()},
                'engine_b_kani_on_emitted_code': self.engine_b,
                'model_mismatches': len(self.mismatches),
                'error_text_differences_native_vs_interpreted (order-dependent wording, tolerated)': ERR_TEXT_DIFFS[0],
                'leaves_without_witness_model (solver timeout)': getattr(self, 'unvalidated', 0),
                'inconclusive': [u.get('unsupported', '')[:300] for u in self.unsupported[:10]],
            },
            'assumptions': list(getattr(prop, 'ASSUMPTIONS', [])) + [
                'std/anyhow entry points listed in std_models_used are Python models following their documented contracts',
                'hash-map iteration order = insertion order unless the slice says otherwise',
                'the encoding is regenerated from /repo on every run (nightly -Zunpretty=mir of a scratch copy + templates)',
            ],
            'wall_s': round(time.time() - self.t0, 1),
            'violations': len(self.violations),
        }
        if extra: ev['coverage'].update(extra)
        if ev['coverage']['states'] == 0:
            ev['coverage']['states'] = 0
        json.dump(ev, open(os.path.join(VERIF, 'evidence', prop.ID + '.json'), 'w'), indent=1, default=str)


def _short(x, n=200):
    s = json.dumps(x)
    return s if len(s) <= n else s[:n] + '...'


def replay_file(path):
    v = json.load(open(path))
    S = Session()
    nat = S.replay_once(v['template'], v['args'])
    S.close()
    same = same_outcome(nat, v['expected'])
    print('template=%s args=%s' % (v['template'], v['args']))
    if 'description' in v: print(v['description'])
    print('native outcome: %s' % _short(nat, 2000))
    print('recorded outcome reproduces: %s' % same)
    if same:
        print('VIOLATION property=%s replay=%s' % (v.get('property', '?'), path))
        return EXIT_VIOLATION
    return EXIT_OK
