"""Run-time values of the symbolic interpreter.  Integers are Python ints (concrete, held as the mathematical
value of their Rust type) or z3 bit-vectors (symbolic); booleans are Python bools or z3 Bools."""
import z3


class Panic(Exception):
    """a Rust panic on the current path (overflow assert, unwrap on None, division by zero, explicit panic!)"""
    def __init__(self, msg, site=''):
        Exception.__init__(self, msg); self.msg = msg; self.site = site


class Unbounded(Exception):
    """step budget exhausted on this path"""


class Adt:
    __slots__ = ('name', 'variant', 'vidx', 'fields')

    def __init__(self, name, variant, vidx, fields):
        self.name = name; self.variant = variant; self.vidx = vidx; self.fields = fields

    def __repr__(self):
        return '%s%s%r' % (self.name, ('::' + self.variant) if self.variant else '', self.fields)


class Tup:
    __slots__ = ('fields',)

    def __init__(self, fields): self.fields = fields

    def __repr__(self): return 'Tup%r' % (self.fields,)


class Arr:
    __slots__ = ('items',)

    def __init__(self, items): self.items = items

    def __repr__(self): return 'Arr%r' % (self.items,)


class Closure:
    __slots__ = ('loc', 'fields')

    def __init__(self, loc, fields): self.loc = loc; self.fields = fields

    def __repr__(self): return '{%s}' % self.loc


class FnItem:
    __slots__ = ('name',)

    def __init__(self, name): self.name = name

    def __repr__(self): return 'fn<%s>' % self.name


class Ptr:
    __slots__ = ('c', 'k')

    def __init__(self, c, k): self.c = c; self.k = k

    def get(self): return self.c[self.k]

    def set(self, v): self.c[self.k] = v

    def __repr__(self):
        try: return '&%r' % (self.c[self.k],)
        except Exception: return '&<dangling>'


class BoxV:
    __slots__ = ('cell',)

    def __init__(self, v): self.cell = [v]

    def __repr__(self): return 'Box(%r)' % (self.cell[0],)


class RVec:
    __slots__ = ('items',)

    def __init__(self, items): self.items = items

    def __repr__(self): return 'vec%r' % (self.items,)


class Slice:
    """value of type &[T] / &mut [T]: a window into a list"""
    __slots__ = ('items', 'start', 'end')

    def __init__(self, items, start, end): self.items = items; self.start = start; self.end = end

    def __len__(self): return self.end - self.start

    def __repr__(self): return '&%r' % (self.items[self.start:self.end],)


class RMap:
    __slots__ = ('entries', 'index', 'ordered', 'symkeys')

    def __init__(self): self.entries = []; self.index = {}; self.ordered = False; self.symkeys = False

    def __repr__(self): return 'map{%s}' % ', '.join('%r: %r' % (e[0], e[1]) for e in self.entries)


class RSet:
    __slots__ = ('entries', 'index', 'ordered')

    def __init__(self): self.entries = []; self.index = {}; self.ordered = False

    def __repr__(self): return 'set{%s}' % ', '.join('%r' % (e[0],) for e in self.entries)


class SymStr:
    """a string with symbolic integer pieces: parts are str or (fmt, z3 bit-vector) with fmt in dec|hex|HEX|sdec"""
    __slots__ = ('parts',)

    def __init__(self, parts):
        out = []
        for p in parts:
            if isinstance(p, str):
                if p == '': continue
                if out and isinstance(out[-1], str): out[-1] += p
                else: out.append(p)
            else:
                out.append(p)
        self.parts = out

    def __repr__(self): return 'SymStr%r' % (self.parts,)


class It:
    """a Rust iterator: wraps a Python iterator"""
    __slots__ = ('gen', 'peeked')

    def __init__(self, gen): self.gen = iter(gen)

    def __iter__(self): return self.gen


class Fmtr:
    """core::fmt::Formatter"""
    __slots__ = ('buf',)

    def __init__(self): self.buf = []


class FmtArg:
    __slots__ = ('kind', 'ptr')

    def __init__(self, kind, ptr): self.kind = kind; self.ptr = ptr


class FmtArgs:
    __slots__ = ('template', 'args')

    def __init__(self, template, args): self.template = template; self.args = args


class Opaque:
    """a value the interpreter carries but never inspects (TypeId, Span, ...)"""
    __slots__ = ('what',)

    def __init__(self, what): self.what = what

    def __repr__(self): return '<%s>' % self.what


UNIT = Tup([])


def is_sym(x):
    return isinstance(x, z3.ExprRef)


def NONE(): return Adt('Option', 'None', 0, [])
def SOME(v): return Adt('Option', 'Some', 1, [v])
def OK(v): return Adt('Result', 'Ok', 0, [v])
def ERR(e): return Adt('Result', 'Err', 1, [e])


def mk_error(msg, cause=None):
    return Adt('anyhow::Error', None, None, [msg, cause])


def concat_str(a, b):
    if isinstance(a, str) and isinstance(b, str): return a + b
    pa = a.parts if isinstance(a, SymStr) else [a]
    pb = b.parts if isinstance(b, SymStr) else [b]
    return SymStr(list(pa) + list(pb))


def copy_val(v):
    t = type(v)
    if t is Tup: return Tup([copy_val(x) for x in v.fields])
    if t is Adt: return Adt(v.name, v.variant, v.vidx, [copy_val(x) for x in v.fields])
    if t is Arr: return Arr([copy_val(x) for x in v.items])
    if t is Closure: return Closure(v.loc, [copy_val(x) for x in v.fields])
    return v


def deref_all(v):
    while type(v) is Ptr: v = v.c[v.k]
    if type(v) is BoxV: return deref_all(v.cell[0])
    return v


def canon(v):
    """hashable structural key of a concrete value (HashMap/HashSet keys, sorting)"""
    t = type(v)
    if t is str: return v
    if t is int or t is bool: return v
    if t is Ptr: return canon(v.c[v.k])
    if t is BoxV: return canon(v.cell[0])
    if t is Adt: return (v.name.split('::')[-1], v.vidx) + tuple(canon(x) for x in v.fields)
    if t is Tup: return tuple(canon(x) for x in v.fields)
    if t is RVec or t is Arr: return ('v',) + tuple(canon(x) for x in v.items)
    if t is Slice: return ('v',) + tuple(canon(x) for x in v.items[v.start:v.end])
    if t is SymStr:
        return ('symstr',) + tuple(p if isinstance(p, str) else (p[0], p[1].sexpr()) for p in v.parts)
    if is_sym(v):
        s = z3.simplify(v)
        if z3.is_bv_value(s): return s.as_long()
        raise KeyError('symbolic value used as a hash/sort key: %s' % s)
    raise KeyError('cannot key %r' % (v,))
