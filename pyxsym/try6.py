import sys, json
from pyxsym.check import *
from pyxsym.props import c03
import random
which = sys.argv[1]
R = Run(c03, 'quick', 0)
S = Session(); R.S=S
for sl in c03.slices('quick', random.Random(0)):
    if sl.name == which:
        R.run_slice(S, sl, load_findings('C03'))
print('query_s', R.query_s)
for q in R.slowq[:3]:
    print(q[0], q[1], q[2], q[3]); print('\n'.join(x.replace('\n',' ')[:400] for x in (q[4] or [])))
print('mismatches', len(R.mismatches), 'unsupported', len(R.unsupported))
for m in R.mismatches[:3]: print(json.dumps(m)[:3000])
for u in R.unsupported[:3]: print(json.dumps(u)[:1500])
json.dump(R.unsupported, open('/var/tmp/unsup.json','w'))
S.close()
