import sys, json, random
import z3
from pyxsym.session import *
from pyxsym.props import c03
U = json.load(open('/var/tmp/unsup.json'))
u = U[0]
dec = [tuple(d) if isinstance(d, list) else d for d in u['decisions']]
S = Session()
sl = [s for s in c03.slices('quick', random.Random(0)) if s.name=='n2-ps4'][0]
a = sym_args(sl.nparams); A = sl.assume(a)
I = S.interp(assumptions=A); I.summarize={'gcd'}
# instrument add_pc to check feasibility after each replayed decision
orig = I.add_pc
cnt=[0]
def add_pc(c):
    orig(c); cnt[0]+=1
    r = I.solver.check()
    if r != z3.sat:
        print('INFEASIBLE after decision', cnt[0], 'of', len(dec), 'in', I.stack[-2:], 'cond', str(c)[:300]); raise SystemExit
I.add_pc = add_pc
import pyxsym.interp as ipm
ob = I.branch
def br(cond):
    if isinstance(cond, z3.ExprRef) and I.model is not None and I.pos >= len(I.decisions):
        m = I.model
        for x in A + I.pc:
            if not z3.is_true(m.eval(x, model_completion=True)):
                print('STALE MODEL: violates', str(x)[:200], 'stack', I.stack[-2:], 'npc', len(I.pc)); raise SystemExit
    if isinstance(cond, z3.ExprRef) and 'a21 == 0' in str(z3.simplify(cond)) and len(str(cond))<60:
        c = z3.simplify(cond)
        print('BR', c, 'model?', I.model is not None, 'pos', I.pos, len(I.decisions), 'check c', I.solver.check(c), 'check nc', I.solver.check(z3.Not(c)))
        if I.model is not None: print(' eval', I.model.eval(c, model_completion=True), I.model.eval(a[21], model_completion=True), I.model.eval(a[20]))
    return ob(cond)
I.branch = br
leaf, p = I.run_path('t_layout', [args_value(a)], dec)
print(leaf.kind, leaf.value, leaf.site)
