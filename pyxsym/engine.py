"""Parallel exploration of a template: worker processes (forked, so they share the parsed program and the symbolic
arguments) each explore sub-trees of the decision tree and evaluate the property's queries on their own leaves;
only plain data crosses process boundaries."""
import os, sys, time, traceback
import multiprocessing as mp
from concurrent.futures import ProcessPoolExecutor, wait, FIRST_COMPLETED
import z3
from .program import Unsupported
from .values import Panic

_JOB = None


def _init():
    pass


def _worker(task):
    prefixes, budget = task
    I, entry, args, leaf_fn = _JOB
    out = []; work = list(prefixes); n = 0
    t0 = time.time(); s0 = I.solver_time
    while work and n < budget:
        dec = work.pop()
        try:
            leaf, pend = I.run_path(entry, args, dec)
            work.extend(pend); n += 1
            out.append(leaf_fn(I, leaf))
        except Unsupported as e:
            out.append({'unsupported': str(e), 'decisions': sorted(dec.items()), 'stack': list(I.stack[-4:])})
        except Exception as e:
            out.append({'unsupported': 'internal error: %s' % traceback.format_exc()[-700:], 'decisions': sorted(dec.items())})
    stats = {'wall': time.time() - t0, 'solver': I.solver_time - s0, 'called': sorted(I.called), 'modelled': sorted(I.modelled),
             'summarized': sorted(I.summarized)}
    I.called = set(); I.modelled = set()
    return out, work, stats


def explore_parallel(I, entry, args, leaf_fn, workers=None, budget=24, max_leaves=2000000, time_limit=None, progress=None, on_results=None):
    """returns (list of leaf_fn results, stats)"""
    global _JOB
    workers = workers or int(os.environ.get('VERIF_WORKERS', '0')) or min(16, os.cpu_count() or 4)
    _JOB = (I, entry, args, leaf_fn)
    results = []
    stats = {'paths': 0, 'worker_wall': 0.0, 'solver': 0.0, 'called': set(), 'modelled': set(), 'summarized': set(),
             'unsupported': [], 'truncated': False}
    t0 = time.time()
    if workers <= 1:
        queue = [{}]
        while queue:
            out, rest, st = _worker(([queue.pop()], budget))
            queue.extend(rest); _merge(stats, st); stats['paths'] += len(out)
            if on_results: on_results(out)
            else: results.extend(out)
            if stats['paths'] > max_leaves or (time_limit and time.time() - t0 > time_limit):
                stats['truncated'] = True; break
        _finish(stats, results, t0)
        return results, stats
    ctx = mp.get_context('fork')
    with ProcessPoolExecutor(max_workers=workers, mp_context=ctx) as ex:
        queue = [{}]
        futs = set()
        # seed: explore a little serially first so that there are enough prefixes to share out
        while queue or futs:
            while queue and len(futs) < workers * 2:
                # small budget while the tree is narrow so that work spreads quickly
                b = 2 if (len(queue) + len(futs)) < workers * 2 else budget
                futs.add(ex.submit(_worker, ([queue.pop()], b)))
            done, futs = wait(futs, return_when=FIRST_COMPLETED)
            for f in done:
                out, rest, st = f.result()
                queue.extend(rest); _merge(stats, st); stats['paths'] += len(out)
                if on_results: on_results(out)
                else: results.extend(out)
            if stats['paths'] > max_leaves or (time_limit and time.time() - t0 > time_limit):
                stats['truncated'] = True
                for f in futs: f.cancel()
                break
    _finish(stats, results, t0)
    return results, stats


def _merge(stats, st):
    stats['worker_wall'] += st['wall']; stats['solver'] += st['solver']
    stats['called'].update(st['called']); stats['modelled'].update(st['modelled']); stats['summarized'].update(st['summarized'])


def _finish(stats, results, t0):
    stats['wall'] = time.time() - t0
    if results: stats['paths'] = len(results)
    stats['unsupported'] = [r for r in results if isinstance(r, dict) and 'unsupported' in r]
    stats['called'] = sorted(stats['called']); stats['modelled'] = sorted(stats['modelled'])
    stats['summarized'] = sorted(stats['summarized'])
