"""concrete differential runs: interpreter vs native on given template argument vectors"""
import sys, json, traceback, random
from pyxsym.session import *
from pyxsym.check import same_outcome
from pyxsym.program import Unsupported

def run_cases(cases, verbose=True):
    S = Session(); I = S.interp()
    bad = 0
    for t, a in cases:
        try:
            leaf, _ = I.run_path(t, [args_value(a)], {})
            got = val_to_py(leaf.value) if leaf.kind == 'ret' else {leaf.kind: leaf.value}
        except Exception as e:
            print('EXC', t, a, type(e).__name__, str(e)[:300]); print('  stack', I.stack[-5:]); bad += 1
            if not isinstance(e, Unsupported): traceback.print_exc()
            continue
        nat = S.replay_once(t, a, timeout=10)
        ok = same_outcome(nat, got)
        if not ok: bad += 1
        if verbose or not ok:
            print('OK ' if ok else 'MISMATCH', t, a, '->', json.dumps(got)[:160 if ok else 1500])
            if not ok: print('   native:', json.dumps(nat)[:1500])
    S.close()
    return bad

if __name__ == '__main__':
    rng = random.Random(1)
    cases = [
     ('t_enum', [4, 2, 3, 1,1,0, 0,0,  0,0,0, 1,5,1, 0,0,0]),
     ('t_enum', [4, 0, 2, 0,0,0, 0,0,  1,256,0, 0,0,0]),
     ('t_enum', [4, 9, 1, 0,0,0, 0,0,  0,0,0]),
     ('t_enum', [8, 7, 2, 0,0,0, 1,4096,  1,-5,0, 0,0,0]),
     ('t_impl', [4, 1, 4096, 0,  1, 2, 0, 2, 0, 1, 0, 1]),
     ('t_impl', [4, 0, 0, 0,  0, 0, 0, 0, 0, 0, 0, 1]),
     ('t_impl', [4, 1, 64, 0,  2, 1, 4, 0, 0, 0, 3, 0]),
     ('t_impl', [4, 1, 64, 0,  2, 1, 0, 0, 0, 5, 8, 0]),
     ('t_vft', [4, 2, 0, 0,  0,0, 1,1,0,0,0,1,0,1,   1,3, 2,0,0,0,0,0,2,1]),
     ('t_vft', [8, 1, 1, 4,  1,2, 1,0,0,0,0,0,0,1]),
     ('t_graph', [4, 2, 0,  0,1,1,1,0,0,0,  0,1,0,0,0,0,0]),
     ('t_graph', [4, 2, 1,  0,1,1,1,0,0,0,  1,1,1,0,0,0,0]),
     ('t_graph', [8, 3, 2,  0,2,2,1,6,0,8,  1,1,4,2,0,0,8, 0,1,6,0,0,0,0]),
     ('t_graph', [4, 1, 0,  0,1,5,0,0,0,0]),
     ('t_scope', [4, 0, 1,1,1,1, 2, 1, 3, 0, 0]),
     ('t_scope', [4, 1, 0,1,0,0, 1, 3, 0, 0, 0]),
     ('t_scope', [4, 0, 0,0,1,0, 1, 4, 0, 0, 0]),
     ('t_scope', [4, 0, 0,0,0,0, 1, 7, 0, 0, 0]),
     ('t_inherit', [4, 1,0,0, 0,0, 0,0, 0,0,0,0,1,0]),
     ('t_inherit', [4, 1,1,1, 1,0, 1,1, 1,1,1,1,1,0]),
     ('t_inherit', [8, 1,1,1, 1,2, 1,0, 1,1,1,2,0,3]),
     ('t_inherit', [4, 0,1,1, 2,0, 0,0, 0,1,0,0,1,0]),
     ('t_items', [4, 0,0,0,0,0]), ('t_items', [4, 1,0,0,0,1]), ('t_items', [4, 1,1,1,0,0]), ('t_items', [4, 0,0,1,1,1]),
     ('t_extern', [4, 1,4096, 1,8192, 2, 1,100,0,1, 1,200,7,0]),
     ('t_extern', [4, 0,0, 0,0, 1, 0,0,0,1]),
     ('t_extern', [8, 1,-1, 0,0, 1, 1,-1,8,1]),
    ]
    sys.exit(1 if run_cases(cases) else 0)
