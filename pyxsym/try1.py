import sys, time, json, traceback
from pyxsym.session import *
S = Session()
print('load', round(S.load_s,1))
I = S.interp()
def conc(template, args):
    t=time.time()
    leaf, pend = I.run_path(template, [args_value(args)], [])
    print(template, args, leaf.kind, 'steps', leaf.steps, 'pending', len(pend), round(time.time()-t,2),'s')
    if leaf.kind=='ret':
        return val_to_py(leaf.value)
    return {'panic': leaf.value}
try:
    r = conc('t_predefined', [4])
    print(json.dumps(r))
    n = S.replay('t_predefined',[4])
    print('native equal:', n==r)
    a=[4, 2, 0,0, 0,0, 0,   0,2,0,0,0,0,0,1,  0,0,0,1,8,0,0,1]
    r = conc('t_layout', a); print(json.dumps(r)[:600]); n=S.replay('t_layout',a); print('native equal:', n==r)
    if n!=r: print(json.dumps(n)[:600])
except Exception as e:
    traceback.print_exc()
    print('STACK', I.stack[-6:])
S.close()
