"""Engine B — Kani/CBMC on the Rust code pyxis emits.

For a list of witness descriptions (template argument vectors chosen by the solver in Engine A, pointer size 8) the
native replay binary builds each with the real pyxis and writes its bindings with the real backend
(`backends::rust::write_module`).  The emitted module is copied into a throw-away crate, calling-convention strings are
normalised to "C" (the original strings are checked textually first), extern types are supplied, and a `#[cfg(kani)]
mod proofs` generated from the semantic summary is appended *inside* the emitted module (so private items are reachable):

  * layout harnesses: size_of / align_of / offset_of! of every emitted struct, discriminant values and Default of enums
    (evaluated by rustc's const evaluator inside the harness, the harness only has to compile and run);
  * dispatch harnesses: an object whose vftable holds one recording stub per slot, every integer argument `kani::any()`;
    the wrapper must log exactly the stub of its slot with `this` = the object's (sub-object's) address and the
    arguments in order, and return the stub's value;
  * accessor harnesses: vftable() of a derived object returns the word stored in the base sub-object; AsRef/AsMut return
    the sub-object's address.
"""
import os, re, json, shutil, subprocess, time, hashlib

CCS = ['C', 'cdecl', 'stdcall', 'fastcall', 'thiscall', 'vectorcall', 'system']
RUST_INT = {'u8', 'u16', 'u32', 'u64', 'u128', 'i8', 'i16', 'i32', 'i64', 'i128', 'bool', 'f32', 'f64'}


class EmitError(Exception):
    pass


def rust_type(t, modpath):
    """summary type -> Rust type text as the backend prints it (crate::<module>::X for user types)"""
    k = t[0]
    if k == 'raw':
        p = t[1]
        if p == 'void': return '::std::ffi::c_void'
        return ('crate::' + modpath + p) if '::' in p else p
    if k == 'const*': return '*const ' + rust_type(t[1], modpath)
    if k == 'mut*': return '*mut ' + rust_type(t[1], modpath)
    if k == 'array': return '[%s; %d]' % (rust_type(t[1], modpath), t[2])
    raise EmitError('type ' + str(t))


def is_intlike(t):
    return t[0] == 'raw' and t[1] in ('u8', 'u16', 'u32', 'u64', 'i8', 'i16', 'i32', 'i64', 'bool')


class Witness:
    def __init__(self, idx, template, args, summary, text):
        self.idx = idx; self.template = template; self.args = args; self.summary = summary; self.text = text
        self.items = {}
        for m in summary[1]:
            for it in m[3]:
                self.items[it[1]] = it


def emit(S, template, args, workdir):
    d = os.path.join(workdir, 'emit')
    shutil.rmtree(d, ignore_errors=True); os.makedirs(d)
    p = subprocess.run([S.art['replay'], '--emit', d, template] + [str(int(a)) for a in args], capture_output=True, text=True, timeout=60)
    if p.returncode != 0 or not p.stdout.strip(): raise EmitError('emit failed: ' + p.stderr[-500:])
    if 'EMIT-ERROR' in p.stderr: raise EmitError('backend error: ' + p.stderr[-800:])
    summ = json.loads(p.stdout)
    files = {}
    for root, dirs, fs in os.walk(d):
        if '.builds' in dirs: dirs.remove('.builds')
        for f in fs:
            files[os.path.relpath(os.path.join(root, f), d)] = open(os.path.join(root, f)).read()
    return summ, files


def emitted_builds(workdir):
    """[{relative path: text}] per build of the last emit() call (a product template builds twice)"""
    base = os.path.join(workdir, 'emit', '.builds')
    out = []
    if not os.path.isdir(base): return out
    for n in sorted(os.listdir(base), key=lambda x: int(x) if x.isdigit() else 0):
        d = os.path.join(base, n); fl = {}
        for root, _, fs in os.walk(d):
            for f in fs:
                fl[os.path.relpath(os.path.join(root, f), d)] = open(os.path.join(root, f)).read()
        out.append(fl)
    return out


# ------------------------------------------------------------------ textual checks done before normalisation
def abi_strings(text):
    """[(context, abi)] for every `extern "<abi>" fn` in the emitted text"""
    return re.findall(r'extern\s+"([A-Za-z]+)"\s+fn', text)


def abi_mismatch(w):
    """compare the ABI strings in the emitted text with the conventions of the summary: every slot of every vftable struct
    and every address-bound wrapper; returns a description of the first mismatch or None"""
    text = w.text
    for path, it in sorted(w.items.items()):
        if not path.startswith('m::') or it[3] != 'defined' or it[4][0] != 'resolved' or it[4][3][0] != 'type': continue
        nm = path[3:]
        inner = it[4][3]
        m = re.search(r'pub struct %s \{(.*?)\n\}' % re.escape(nm), text, re.S)
        body = m.group(1) if m else ''
        for r in inner[1]:
            if r[4][0] == 'fn':
                mm = re.search(r'\b%s:\s*unsafe\s+extern\s+"(\w+)"\s+fn' % re.escape(r[2]), body)
                if not mm or mm.group(1) != r[4][1]:
                    return 'slot %s.%s: emitted %s, resolved %s' % (nm, r[2], mm.group(1) if mm else None, r[4][1])
        im = re.search(r'impl %s \{(.*?)\n\}\n' % re.escape(nm), text, re.S)
        ibody = im.group(1) if im else ''
        for f in inner[3]:
            if f[4][0] == 'address' and not f[2].startswith('_'):
                mm = re.search(r'fn %s\(.*?let \w+:\s*unsafe\s+extern\s+"(\w+)"\s+fn' % re.escape(f[2]), ibody, re.S)
                if not mm or mm.group(1) != f[7]:
                    return 'wrapper %s::%s: emitted %s, resolved %s' % (nm, f[2], mm.group(1) if mm else None, f[7])
    return None


def marks_mismatch(w):
    """visibility, derives, packing and doc comments of the emitted text against the resolved model (C17); returns a description of the first
    difference or None.  prettyplease output is regular: attributes, then `/// doc` lines, then the declaration."""
    text = w.text
    lines = text.split('\n')
    def docs_above(idx):
        out = []; j = idx - 1
        while j >= 0 and lines[j].strip().startswith('///'):
            out.insert(0, lines[j].strip()[3:]); j -= 1
        return out, j
    def find_line(pattern, start=0, end=None):
        rx = re.compile(pattern)
        for i in range(start, end if end is not None else len(lines)):
            if rx.match(lines[i]): return i
        return None
    def want_docs(doc): return [] if doc is None else doc.split('\n')
    expected_counts = {}
    def note(doc):
        for l in want_docs(doc): expected_counts[l] = expected_counts.get(l, 0) + 1
    mod = [m for m in w.summary[1] if m[1] == 'm'][0]
    got_mod = [l.strip()[3:] for l in lines if l.strip().startswith('//!')]
    if got_mod != want_docs(mod[2]): return 'module doc: emitted %r, resolved %r' % (got_mod, want_docs(mod[2]))
    note(mod[2])
    for path, it in sorted(w.items.items()):
        if not path.startswith('m::') or it[3] != 'defined' or it[4][0] != 'resolved': continue
        nm = path[3:]; inner = it[4][3]; kw = 'struct' if inner[0] == 'type' else 'enum'
        di = find_line(r'^(pub )?%s %s \{' % (kw, re.escape(nm)))
        if di is None: return '%s %s not found in the emitted text' % (kw, nm)
        if lines[di].startswith('pub ') != (it[2] == 'pub'): return '%s %s: emitted %s, resolved %s' % (kw, nm, 'pub' if lines[di].startswith('pub ') else 'private', it[2])
        docs, j = docs_above(di)
        if docs != want_docs(inner[2]): return '%s %s docs: emitted %r, resolved %r' % (kw, nm, docs, want_docs(inner[2]))
        note(inner[2])
        attrs = []
        while j >= 0 and lines[j].startswith('#['): attrs.append(lines[j]); j -= 1
        derive = ' '.join(a for a in attrs if a.startswith('#[derive'))
        derived = set(re.findall(r'\b(Copy|Clone|Default)\b', derive))
        cp, cl, df = (inner[6], inner[7], inner[8]) if inner[0] == 'type' else (inner[5], inner[6], inner[7])
        want = set(n for n, b in (('Copy', cp), ('Clone', cl), ('Default', df)) if b)
        if derived != want: return '%s %s derives: emitted %s, resolved %s' % (kw, nm, sorted(derived), sorted(want))
        if inner[0] == 'type':
            reprs = ' '.join(a for a in attrs if a.startswith('#[repr'))
            if bool(inner[9]) != ('packed' in reprs): return 'struct %s: packed in the model %s, emitted repr %s' % (nm, bool(inner[9]), reprs)
            if inner[9] and 'align(' in reprs: return 'struct %s: packed type emitted with an alignment attribute: %s' % (nm, reprs)
            end = find_line(r'^\}', di)
            for r in inner[1]:
                fi = find_line(r'^    (pub )?%s: ' % re.escape(r[2]), di, end)
                if fi is None: return 'field %s.%s not found' % (nm, r[2])
                is_pub = lines[fi].startswith('    pub ')
                if is_pub != (r[1] == 'pub'): return 'field %s.%s: emitted %s, resolved %s' % (nm, r[2], 'pub' if is_pub else 'private', r[1])
                fdocs, _ = docs_above(fi)
                if fdocs != want_docs(r[3]): return 'field %s.%s docs: emitted %r, resolved %r' % (nm, r[2], fdocs, want_docs(r[3]))
                note(r[3])
            fns = list(inner[3]) + (list(inner[4][0]) if inner[4] is not None else [])
            for f in fns:
                if f[2].startswith('_'): continue
                fi = None
                for i, l in enumerate(lines):
                    if re.match(r'^    (pub )?unsafe fn %s\(' % re.escape(f[2]), l):
                        # the enclosing impl block must be this type's
                        k = i
                        while k >= 0 and not lines[k].startswith('impl '): k -= 1
                        if k >= 0 and re.match(r'^impl %s \{' % re.escape(nm), lines[k]): fi = i; break
                if fi is None: return 'function %s::%s not found' % (nm, f[2])
                is_pub = lines[fi].startswith('    pub ')
                if is_pub != (f[1] == 'pub'): return 'function %s::%s: emitted %s, resolved %s' % (nm, f[2], 'pub' if is_pub else 'private', f[1])
                fdocs, _ = docs_above(fi)
                if fdocs != want_docs(f[3]): return 'function %s::%s docs: emitted %r, resolved %r' % (nm, f[2], fdocs, want_docs(f[3]))
                note(f[3])
    # a doc line appears on the counterparts of its item and nowhere else
    for l, n in expected_counts.items():
        got = sum(1 for x in lines if x.strip() in ('///' + l, '//!' + l))
        if got != n: return 'doc line %r occurs %d times in the emitted text, %d expected' % (l, got, n)
    stray = [x.strip() for x in lines if x.strip().startswith('///') and x.strip()[3:] not in expected_counts]
    if stray: return 'doc line on an item that has none in the model: %s' % stray[0]
    return None


# ------------------------------------------------------------------ harness generation
def gen_harness(w, modprefix, kinds=None):
    """Rust text of `mod proofs` for one emitted module `m`; returns (text, [harness names], facts)"""
    mp = modprefix            # e.g. 'w0::'
    out = ['', '#[cfg(kani)]', 'mod proofs {', '    #![allow(unused, non_snake_case, static_mut_refs)]', '    use super::*;',
           '    use core::mem::{size_of, align_of, offset_of};',
           '    // compile-time probe: is `T: AsRef<U>` / `T: AsMut<U>` implemented?  (an inherent const shadows the trait default)',
           '    pub struct Probe<T, U>(core::marker::PhantomData<(T, U)>);',
           '    pub trait NoRef { const HAS_REF: bool = false; }', '    impl<T, U> NoRef for Probe<T, U> {}',
           '    impl<T: AsRef<U>, U> Probe<T, U> { pub const HAS_REF: bool = true; }',
           '    pub trait NoMut { const HAS_MUT: bool = false; }', '    impl<T, U> NoMut for Probe<T, U> {}',
           '    impl<T: AsMut<U>, U> Probe<T, U> { pub const HAS_MUT: bool = true; }',
           '    // derive probes: is `T: Copy` / `Clone` / `Default` implemented?',
           '    pub struct Marks<T>(core::marker::PhantomData<T>);',
           '    pub trait NoCopy { const HAS_COPY: bool = false; }', '    impl<T> NoCopy for Marks<T> {}', '    impl<T: Copy> Marks<T> { pub const HAS_COPY: bool = true; }',
           '    pub trait NoClone { const HAS_CLONE: bool = false; }', '    impl<T> NoClone for Marks<T> {}', '    impl<T: Clone> Marks<T> { pub const HAS_CLONE: bool = true; }',
           '    pub trait NoDefault { const HAS_DEFAULT: bool = false; }', '    impl<T> NoDefault for Marks<T> {}', '    impl<T: Default> Marks<T> { pub const HAS_DEFAULT: bool = true; }']
    names = []; facts = []
    items = w.items
    for path, it in sorted(items.items()):
        if not path.startswith('m::') or it[3] != 'defined' or it[4][0] != 'resolved': continue
        nm = path[3:]
        size, align, inner = it[4][1], it[4][2], it[4][3]
        if inner[0] == 'type':
            lines = ['        assert_eq!(size_of::<%s>(), %d);' % (nm, size), '        assert_eq!(align_of::<%s>(), %d);' % (nm, align)]
            off = 0
            for r in inner[1]:
                rn = r[2]; rs = r[6]
                lines.append('        assert_eq!(offset_of!(%s, %s), %d);' % (nm, rn, off))
                facts.append((nm, rn, off))
                off += rs
            h = 'layout_%s' % nm
            out += ['    #[kani::proof]', '    fn %s() {' % h] + lines + ['    }']
            names.append(h)
        else:
            base = inner[1][1] if inner[1][0] == 'raw' else None
            lines = ['        assert_eq!(size_of::<%s>(), %d);' % (nm, size), '        assert_eq!(align_of::<%s>(), %d);' % (nm, align)]
            if base in RUST_INT:
                for vn, vv in inner[3]:
                    lines.append('        assert_eq!(%s::%s as %s as i128, %d);' % (nm, vn, base, vv))
            if inner[7] and inner[8] is not None:
                lines.append('        assert!(<%s as Default>::default() == %s::%s);' % (nm, nm, inner[3][inner[8]][0]))
            h = 'enum_%s' % nm
            out += ['    #[kani::proof]', '    fn %s() {' % h] + lines + ['    }']
            names.append(h)
    # ---- marker attributes (C17): the derives rustc sees are exactly the ones the resolved model carries
    for path, it in sorted(items.items()):
        if not path.startswith('m::') or it[3] != 'defined' or it[4][0] != 'resolved': continue
        nm = path[3:]; inner = it[4][3]
        cp, cl, df = (inner[6], inner[7], inner[8]) if inner[0] == 'type' else (inner[5], inner[6], inner[7])
        tf = lambda b: 'true' if b else 'false'
        lines = ['        assert_eq!(<Marks<%s>>::HAS_COPY, %s);' % (nm, tf(cp)), '        assert_eq!(<Marks<%s>>::HAS_CLONE, %s);' % (nm, tf(cl)),
                 '        assert_eq!(<Marks<%s>>::HAS_DEFAULT, %s);' % (nm, tf(df))]
        if inner[0] == 'type' and inner[9]: lines.append('        assert_eq!(align_of::<%s>(), 1);' % nm)
        h = 'marks_%s' % nm
        out += ['    #[kani::proof]', '    fn %s() {' % h] + lines + ['    }']
        names.append(h)
    # ---- dispatch through vftables
    out += ['    static mut LOG_ID: usize = 0;', '    static mut LOG_THIS: usize = 0;', '    static mut LOG_ARGS: [u64; 8] = [0; 8];',
            '    static mut LOG_CALLS: usize = 0;',
            '    // ---- absolute addresses (see rewrite_absolute_addresses)',
            '    pub static mut LOG_ADDR: usize = 0;', '    pub static mut LOG_ADDR_USES: usize = 0;', '    pub static mut NEXT_FN: usize = 0;',
            '    pub static mut CELL: usize = 0;', '    #[repr(align(16))] pub struct Buf(pub [u8; 256]);', '    pub static mut DATA: Buf = Buf([0; 256]);',
            '    pub unsafe fn addr_fn<F: Copy>(a: usize) -> F { LOG_ADDR = a; LOG_ADDR_USES += 1; let p: usize = NEXT_FN; core::mem::transmute_copy::<usize, F>(&p) }',
            '    pub unsafe fn addr_cell(a: usize) -> usize { LOG_ADDR = a; LOG_ADDR_USES += 1; core::ptr::addr_of_mut!(CELL) as usize }',
            '    pub unsafe fn addr_enum(a: usize) -> usize { LOG_ADDR = a; LOG_ADDR_USES += 1; core::ptr::addr_of_mut!(DATA) as usize }',
            '    pub unsafe fn addr_data(a: usize) -> usize { LOG_ADDR = a; LOG_ADDR_USES += 1; core::ptr::addr_of_mut!(DATA) as usize }']
    # ---- address-bound wrappers (C05), singletons and extern values (C15)
    for path, it in sorted(items.items()):
        if not path.startswith('m::') or it[3] != 'defined' or it[4][0] != 'resolved': continue
        nm = path[3:]
        inner = it[4][3]
        if inner[0] == 'type':
            for f in inner[3]:
                if f[4][0] != 'address' or f[2].startswith('_'): continue
                addr = f[4][1]
                recv = [a for a in f[5] if isinstance(a, str)]
                args = [a for a in f[5] if not isinstance(a, str)]
                if not all(is_intlike(at) or at[0] in ('const*', 'mut*') for _, at in args): continue
                sid = stub_n[0] if False else None
                params = []; rec = []
                # stub parameters and harness locals get positional names: the description's own parameter names may be anything (`this`, `f`, `obj`...)
                if recv: params.append('p_this: *%s %s' % ('const' if recv[0] == '&self' else 'mut', nm)); rec.append('LOG_THIS = p_this as usize;')
                for ai, (an, at) in enumerate(args):
                    params.append('q%d: %s' % (ai, rust_type(at, mp)))
                    rec.append('LOG_ARGS[%d] = q%d as u64;' % (ai, ai) if is_intlike(at) else 'LOG_ARGS[%d] = q%d as usize as u64;' % (ai, ai))
                ret = f[6]
                rett = '' if ret is None else ' -> ' + rust_type(ret, mp)
                retv = '' if ret is None else ('77 as %s' % ret[1] if is_intlike(ret) and ret[1] != 'bool' else ('true' if ret == ['raw', 'bool'] else 'core::mem::zeroed()'))
                sname = 'astub_%s_%s' % (nm, f[2])
                out.append('    unsafe extern "C" fn %s(%s)%s { LOG_CALLS += 1; %s %s }' % (sname, ', '.join(params), rett, ' '.join(rec), retv))
                decl = []; call = []; chk = []
                for ai, (an, at) in enumerate(args):
                    if is_intlike(at):
                        decl.append('        let v%d: %s = kani::any();' % (ai, at[1])); call.append('v%d' % ai); chk.append('        assert_eq!(LOG_ARGS[%d], v%d as u64);' % (ai, ai))
                    else:
                        decl.append('        let v%d_raw: usize = kani::any();' % ai); decl.append('        let v%d = v%d_raw as %s;' % (ai, ai, rust_type(at, mp)))
                        call.append('v%d' % ai); chk.append('        assert_eq!(LOG_ARGS[%d], v%d_raw as u64);' % (ai, ai))
                h = 'addrcall_%s_%s' % (nm, f[2])
                body = ['    #[kani::proof]', '    fn %s() {' % h, '      unsafe {', '        let mut obj: %s = core::mem::zeroed();' % nm,
                        '        NEXT_FN = %s as usize; LOG_CALLS = 0; LOG_ADDR_USES = 0;' % sname] + decl
                callx = ('obj.%s(%s)' if recv else nm + '::%s(%s)') % (f[2], ', '.join(call))
                if ret is not None and is_intlike(ret) and ret[1] != 'bool':
                    body += ['        let r = %s;' % callx, '        assert_eq!(r as i128, 77);']
                else: body.append('        %s;' % callx)
                body += ['        assert_eq!(LOG_ADDR_USES, 1);', '        assert_eq!(LOG_ADDR, %d);' % addr, '        assert_eq!(LOG_CALLS, 1);']
                if recv: body.append('        assert_eq!(LOG_THIS, &obj as *const %s as usize);' % nm)
                body += chk + ['      }', '    }']
                out += body; names.append(h)
            if inner[5] is not None:
                h = 'singleton_%s' % nm
                if it[4][1] == 0:
                    # a zero-sized singleton type: a zero-sized local has no address of its own in CBMC, and Kani rejects references to
                    # unallocated addresses — the object lives at the address of an allocated byte
                    obj_lines = ['        let mut slot: u8 = 0;', '        let where_ = core::ptr::addr_of_mut!(slot) as usize;', '        CELL = where_;']
                    obj_addr = 'where_'
                else:
                    obj_lines = ['        let mut obj: %s = core::mem::zeroed();' % nm, '        CELL = core::ptr::addr_of_mut!(obj) as usize;']
                    obj_addr = 'core::ptr::addr_of_mut!(obj) as usize'
                out += ['    #[kani::proof]', '    fn %s() {' % h, '      unsafe {', '        LOG_ADDR_USES = 0; CELL = 0;',
                        '        assert!(%s::get().is_none());' % nm, '        assert_eq!(LOG_ADDR, %d);' % inner[5], '        assert_eq!(LOG_ADDR_USES, 1);'] + obj_lines + [
                        '        let r = %s::get();' % nm, '        assert!(r.is_some());',
                        '        assert_eq!(r.unwrap() as *mut %s as usize, %s);' % (nm, obj_addr), '      }', '    }']
                names.append(h)
        else:
            if inner[4] is not None and inner[3]:
                h = 'singleton_%s' % nm
                first = inner[3][0][0]
                out += ['    #[kani::proof]', '    fn %s() {' % h, '      unsafe {', '        LOG_ADDR_USES = 0;',
                        '        core::ptr::write(core::ptr::addr_of_mut!(DATA) as *mut %s, %s::%s);' % (nm, nm, first),
                        '        let v = %s::get();' % nm, '        assert!(v == %s::%s);' % (nm, first),
                        '        assert_eq!(LOG_ADDR, %d);' % inner[4], '        assert_eq!(LOG_ADDR_USES, 1);', '      }', '    }']
                names.append(h)
    for m in w.summary[1]:
        if m[1] != 'm': continue
        for ev in m[4]:
            _, vis, name, ty, addr = ev
            h = 'externval_%s' % name
            out += ['    #[kani::proof]', '    fn %s() {' % h, '      unsafe {', '        LOG_ADDR_USES = 0;',
                    '        let r: &mut %s = get_%s();' % (rust_type(ty, mp), name),
                    '        assert_eq!(r as *mut %s as usize, core::ptr::addr_of_mut!(DATA) as usize);' % rust_type(ty, mp),
                    '        assert_eq!(LOG_ADDR, %d);' % addr, '        assert_eq!(LOG_ADDR_USES, 1);', '      }', '    }']
            names.append(h)
    stub_n = [0]
    for path, it in sorted(items.items()):
        if not path.startswith('m::') or it[3] != 'defined' or it[4][0] != 'resolved' or it[4][3][0] != 'type': continue
        nm = path[3:]
        inner = it[4][3]
        vft = inner[4]
        if vft is None: continue
        fns, base_field, ttype = vft
        tname = ttype[1][1]            # 'm::XVftable'
        if tname not in items: continue
        tshort = tname[3:]
        treg = items[tname][4][3][1]   # regions of the table struct, slot order
        # where is the table pointer stored? follow base_field chains
        access = 'obj'
        cur = it
        owner = nm
        chain = []
        while True:
            v = cur[4][3][4]
            if v is None: break
            if v[1] is None: break
            bf = v[1]
            chain.append(bf)
            # type of that base field
            reg = [r for r in cur[4][3][1] if r[2] == bf][0]
            owner_path = reg[4][1]
            cur = items[owner_path]; owner = owner_path[3:]
        ptr_place = 'obj' + ''.join('.' + c for c in chain) + '.vftable'
        owner_tab = cur[4][3][4][2][1][1][3:]      # table type the pointer field is declared with
        # one stub per slot, with that slot's own signature
        stubs = []
        for si, r in enumerate(treg):
            ft = r[4]
            sid = stub_n[0]; stub_n[0] += 1
            params = []; rec = []
            ai = 0
            for pi, (an, at) in enumerate(ft[2]):
                params.append('p%d: %s' % (pi, rust_type(at, mp)))
                if an == 'this' and pi == 0: rec.append('LOG_THIS = p0 as usize;')
                else:
                    if is_intlike(at): rec.append('LOG_ARGS[%d] = p%d as u64;' % (ai, pi))
                    elif at[0] in ('const*', 'mut*'): rec.append('LOG_ARGS[%d] = p%d as usize as u64;' % (ai, pi))
                    ai += 1
            ret = ft[3]
            rett = '' if ret is None else ' -> ' + rust_type(ret, mp)
            retv = ''
            if ret is not None:
                if is_intlike(ret) and ret[1] != 'bool': retv = '%d as %s' % (40 + sid, ret[1])
                elif ret[1] == 'bool' if ret[0] == 'raw' else False: retv = 'true'
                else: retv = 'core::mem::zeroed()'
            out += ['    unsafe extern "C" fn stub_%d(%s)%s { LOG_ID = %d; LOG_CALLS += 1; %s %s }' % (sid, ', '.join(params), rett, sid, ' '.join(rec), retv)]
            stubs.append((r[2], sid, ft, 40 + sid))
        table_init = ', '.join('%s: stub_%d' % (n, sid) for (n, sid, ft, rv) in stubs)
        # public (non-internal) virtual functions get wrappers on the type
        for f in fns:
            fname = f[2]
            if fname.startswith('_'): continue
            slot = [s for s in stubs if s[0] == fname]
            if not slot: continue
            _, sid, ft, rv = slot[0]
            args = [a for a in f[5] if not isinstance(a, str)]
            decl = []; call = []; chk = []
            ok = True
            for ai, (an, at) in enumerate(args):
                if is_intlike(at):
                    decl.append('        let v%d: %s = kani::any();' % (ai, at[1])); call.append('v%d' % ai)
                    chk.append('        assert_eq!(LOG_ARGS[%d], v%d as u64);' % (ai, ai))
                elif at[0] in ('const*', 'mut*'):
                    decl.append('        let v%d_raw: usize = kani::any();' % ai)
                    decl.append('        let v%d = v%d_raw as %s;' % (ai, ai, rust_type(at, mp))); call.append('v%d' % ai)
                    chk.append('        assert_eq!(LOG_ARGS[%d], v%d_raw as u64);' % (ai, ai))
                else: ok = False
            if not ok: continue
            h = 'dispatch_%s_%s' % (nm, fname)
            body = ['    #[kani::proof]', '    fn %s() {' % h, '      unsafe {',
                    '        let table = %s { %s };' % (tshort, table_init),
                    '        let mut obj: %s = core::mem::zeroed();' % nm,
                    '        %s = &table as *const %s as *const %s;' % (ptr_place, tshort, owner_tab),
                    '        LOG_CALLS = 0;'] + decl
            ret = f[6]
            callx = 'obj.%s(%s)' % (fname, ', '.join(call))
            if ret is not None and is_intlike(ret) and ret[1] != 'bool':
                body.append('        let r = %s;' % callx); body.append('        assert_eq!(r as i128, %d);' % rv)
            else:
                body.append('        %s;' % callx)
            body += ['        assert_eq!(LOG_CALLS, 1);', '        assert_eq!(LOG_ID, %d);' % sid,
                     '        assert_eq!(LOG_THIS, &obj as *const %s as usize);' % nm] + chk + ['      }', '    }']
            out += body; names.append(h)
        # accessor: vftable() returns the word stored in the (base sub-object's) pointer field
        h = 'accessor_%s' % nm
        out += ['    #[kani::proof]', '    fn %s() {' % h, '      unsafe {', '        let mut obj: %s = core::mem::zeroed();' % nm,
                '        let p: usize = kani::any();', '        %s = p as *const %s;' % (ptr_place, owner_tab),
                '        assert_eq!(obj.vftable() as usize, p);',
                '        // the accessor is typed with the table type the resolved model gives this type (a mismatch is a compile error here)',
                '        let typed_accessor_result: *const %s = obj.vftable();' % tshort, '      }', '    }']
        names.append(h)
    # ---- forwarded virtual functions of non-first bases and AsRef (C07)
    for path, it in sorted(items.items()):
        if not path.startswith('m::') or it[3] != 'defined' or it[4][0] != 'resolved' or it[4][3][0] != 'type': continue
        nm = path[3:]
        inner = it[4][3]
        regs = inner[1]
        for f in inner[3]:
            body = f[4]
            if body[0] != 'field': continue
            field, orig = body[1], body[2]
            reg = [r for r in regs if r[2] == field]
            if not reg or reg[0][4][0] != 'raw' or reg[0][4][1] not in items: continue
            bt = items[reg[0][4][1]]
            bvft = bt[4][3][4]
            if bvft is None or not any(x[2] == orig for x in bvft[0]): continue      # only virtual functions can be executed
            if bvft[1] is not None: continue                                          # base's own pointer field only
            btab = bvft[2][1][1]
            if btab not in items: continue
            bshort = reg[0][4][1][3:]
            treg = items[btab][4][3][1]
            stubs = []
            for r in treg:
                ft = r[4]; sid = stub_n[0]; stub_n[0] += 1
                params = ['p%d: %s' % (pi, rust_type(at, mp)) for pi, (an, at) in enumerate(ft[2])]
                rec = ['LOG_THIS = p0 as usize;'] if (ft[2] and ft[2][0][0] == 'this') else []
                ret = ft[3]
                rett = '' if ret is None else ' -> ' + rust_type(ret, mp)
                retv = '' if ret is None else ('%d as %s' % (40 + sid, ret[1]) if is_intlike(ret) and ret[1] != 'bool' else 'core::mem::zeroed()')
                out += ['    unsafe extern "C" fn stub_%d(%s)%s { LOG_ID = %d; LOG_CALLS += 1; %s %s }' % (sid, ', '.join(params), rett, sid, ' '.join(rec), retv)]
                stubs.append((r[2], sid))
            sid = [s for n, s in stubs if n == orig][0]
            args = [a for a in f[5] if not isinstance(a, str)]
            if not all(is_intlike(at) for _, at in args): continue
            decl = ['        let v%d: %s = kani::any();' % (ai, at[1]) for ai, (an, at) in enumerate(args)]
            h = 'forward_%s_%s' % (nm, f[2])
            out += ['    #[kani::proof]', '    fn %s() {' % h, '      unsafe {',
                    '        let table = %s { %s };' % (btab[3:], ', '.join('%s: stub_%d' % (n, s) for n, s in stubs)),
                    '        let mut obj: %s = core::mem::zeroed();' % nm,
                    '        obj.%s.vftable = &table;' % field, '        LOG_CALLS = 0;'] + decl + [
                    '        obj.%s(%s);' % (f[2], ', '.join('v%d' % ai for ai in range(len(args)))),
                    '        assert_eq!(LOG_CALLS, 1);', '        assert_eq!(LOG_ID, %d);' % sid,
                    '        assert_eq!(LOG_THIS, core::ptr::addr_of!(obj.%s) as usize);' % field, '      }', '    }']
            names.append(h)
        # AsRef / AsMut: for every base type in the hierarchy, the conversion exists iff the type occurs exactly once, and then
        # it returns the address of that sub-object
        def hierarchy(it0, prefix):
            res = []
            for r in it0[4][3][1]:
                if r[5] and r[4][0] == 'raw' and r[4][1] in items and items[r[4][1]][4][0] == 'resolved' and items[r[4][1]][4][3][0] == 'type':
                    res.append((prefix + [r[2]], r[4][1]))
                    res += hierarchy(items[r[4][1]], prefix + [r[2]])
            return res
        hs = hierarchy(it, [])
        if hs:
            counts = {}
            for pth, ty in hs: counts[ty] = counts.get(ty, 0) + 1
            lines = ['        let mut obj: %s = core::mem::zeroed();' % nm]
            for ty in sorted(counts):
                ushort = ty[3:]
                lines.append('        assert_eq!(<Probe<%s, %s>>::HAS_REF, %s);' % (nm, ushort, 'true' if counts[ty] == 1 else 'false'))
                lines.append('        assert_eq!(<Probe<%s, %s>>::HAS_MUT, %s);' % (nm, ushort, 'true' if counts[ty] == 1 else 'false'))
                if counts[ty] == 1:
                    pth = [p_ for p_, t_ in hs if t_ == ty][0]
                    place = 'obj.' + '.'.join(pth)
                    lines += ['        let p = core::ptr::addr_of!(%s) as usize;' % place,
                              '        { let a: &%s = obj.as_ref(); assert_eq!(a as *const %s as usize, p); }' % (ushort, ushort),
                              '        { let b: &mut %s = obj.as_mut(); assert_eq!(b as *mut %s as usize, p); }' % (ushort, ushort)]
            h = 'asref_%s' % nm
            out += ['    #[kani::proof]', '    fn %s() {' % h, '      unsafe {'] + lines + ['      }', '    }']
            names.append(h)
    out.append('}')
    return '\n'.join(out), names, facts


def filter_harnesses(text, names, kinds):
    """keep only the #[kani::proof] functions whose name starts with one of `kinds` (stubs and statics stay)"""
    if not kinds: return text, names
    keep = [n for n in names if any(n.startswith(k) for k in kinds)]
    for n in names:
        if n in keep: continue
        text = text.replace('    #[kani::proof]\n    fn %s() {' % n, '    fn %s() {' % n)
    return text, keep


def externs_realisable(summ):
    for m in summ[1]:
        for it in m[3]:
            if it[3] == 'extern' and it[4][0] == 'resolved':
                size, align = it[4][1], it[4][2]
                if align == 0 or size % align != 0: return False
    return True


def extern_defs(w):
    out = []
    for path, it in sorted(w.items.items()):
        if it[3] == 'extern' and path.startswith('m::'):
            size, align = it[4][1], it[4][2]
            # natural alignment through the element type (a repr(align) struct could not be placed inside a packed type)
            elem = {1: 'u8', 2: 'u16', 4: 'u32', 8: 'u64', 16: 'u128'}.get(align)
            if elem: out.append('#[repr(C)] pub struct %s { _b: [%s; %d] }' % (path[3:], elem, size // align))
            else: out.append('#[repr(C, align(%d))] pub struct %s { _b: [u8; %d] }' % (max(align, 1), path[3:], size))
    return '\n'.join(out)


ADDR = r'(0x[0-9A-Fa-f_]+|[0-9][0-9_]*usize|[0-9][0-9_]*)'


def rewrite_absolute_addresses(t, modprefix):
    """CBMC cannot call or dereference an integer address.  Every place where the emitted code turns a literal address into a
    function pointer or a data pointer is redirected to a helper in `mod proofs` that *records the literal* and hands out a
    harness-controlled target.  Nothing else of the emitted text changes."""
    P = 'crate::%sm::proofs::' % modprefix
    t = re.sub(r'::std::mem::transmute\(\s*' + ADDR + r' as usize,?\s*\)', lambda m: P + 'addr_fn(' + m.group(1) + ' as usize)', t)
    t = re.sub(r'\(\s*' + ADDR + r' as \*mut \*mut Self\s*\)', lambda m: '(' + P + 'addr_cell(' + m.group(1) + ' as usize) as *mut *mut Self)', t)
    t = re.sub(r'\(\s*' + ADDR + r' as \*const Self\s*\)', lambda m: '(' + P + 'addr_enum(' + m.group(1) + ' as usize) as *const Self)', t)
    t = re.sub(r'\(\s*' + ADDR + r' as \*mut ', lambda m: '(' + P + 'addr_data(' + m.group(1) + ' as usize) as *mut ', t)
    return t


def normalise(text, modprefix):
    t = text.replace('crate::m::', 'crate::%sm::' % modprefix)
    t = rewrite_absolute_addresses(t, modprefix)
    for cc in CCS:
        if cc != 'C': t = t.replace('extern "%s"' % cc, 'extern "C"')
    return t


def run_kani(crate, harness_names, timeout=1500):
    env = dict(os.environ, CARGO_NET_OFFLINE='true', CARGO_TARGET_DIR=os.path.join(crate, 'target'))
    t = time.time()
    cmd = ['cargo', 'kani', '--output-format', 'terse', '-j', '8', '--default-unwind', '4']
    p = subprocess.run('ulimit -v 16000000; ' + ' '.join(cmd), shell=True, cwd=crate, env=env, stdout=subprocess.PIPE, stderr=subprocess.STDOUT,
                       text=True, timeout=timeout)
    out = p.stdout
    failed = set(x.split('::')[-1] for x in re.findall(r'Verification failed for - (\S+)', out))
    m = re.search(r'Complete - (\d+) successfully verified harnesses, (\d+) failures, (\d+) total', out)
    res = {'ok': int(m.group(1)) if m else 0, 'failures': int(m.group(2)) if m else -1, 'total': int(m.group(3)) if m else 0,
           'failed': sorted(failed)}
    compile_error = None
    if not m:
        errs = re.findall(r'(error(?:\[E\d+\])?: [^\n]*(?:\n[^\n]*){0,6})', out)
        compile_error = '\n'.join(errs[:3])[:2500] if errs else out[-1500:]
    return {'rc': p.returncode, 'seconds': round(time.time() - t, 1), 'summary': res, 'compile_error': compile_error, 'tail': out[-3000:]}


def gen_outside(w):
    """code placed OUTSIDE the emitted module: it names every item, field and function the semantic model marks public, so an item
    the backend emitted with less visibility than resolved is a compile error (E0603 / E0616 / E0624) in `outside_probe`"""
    mp = 'crate::w%d::m::' % w.idx
    lines = []
    for path, it in sorted(w.items.items()):
        if not path.startswith('m::') or it[3] != 'defined' or it[4][0] != 'resolved' or it[2] != 'pub': continue
        nm = path[3:]
        if '::' in nm: continue
        inner = it[4][3]
        lines.append('        let _ = core::mem::size_of::<%s%s>();' % (mp, nm))
        if inner[0] != 'type': continue
        for r in inner[1]:
            if r[1] == 'pub' and isinstance(r[2], str) and not r[2].startswith('_'):
                lines.append('        let _ = core::mem::offset_of!(%s%s, %s);' % (mp, nm, r[2]))
        fns = list(inner[3]) + (list(inner[4][0]) if inner[4] is not None else [])
        for f in fns:
            if f[1] == 'pub' and isinstance(f[2], str) and not f[2].startswith('_'):      # `_`-prefixed functions are internal: no wrapper is emitted
                lines.append('        let _ = %s%s::%s;' % (mp, nm, f[2]))
    return '    pub fn outside_probe_w%d() {\n%s\n    }' % (w.idx, '\n'.join(lines))


def build_crate(workdir, witnesses, kinds=None, canary=True):
    crate = os.path.join(workdir, 'crate')
    shutil.rmtree(os.path.join(crate, 'src'), ignore_errors=True)
    os.makedirs(os.path.join(crate, 'src'), exist_ok=True)
    open(os.path.join(crate, 'Cargo.toml'), 'w').write('[package]\nname = "emitted"\nversion = "0.0.0"\nedition = "2021"\n\n[workspace]\n\n[lints.rust]\nunexpected_cfgs = { level = "allow" }\n')
    lib = ['#![allow(unused, non_snake_case, non_camel_case_types)]']
    allnames = {}
    for w in witnesses:
        mp = 'w%d::' % w.idx
        os.makedirs(os.path.join(crate, 'src', 'w%d' % w.idx), exist_ok=True)
        lib.append('pub mod w%d { pub mod m; }' % w.idx)
        harness, names, facts = gen_harness(w, mp)
        harness, names = filter_harnesses(harness, names, kinds)
        if canary and w is witnesses[0]:
            # vacuity guard: a harness with a deliberately wrong expectation must be reported as failed
            harness = harness.rstrip()[:-1] + '    #[kani::proof]\n    fn canary_must_fail() { let x: u8 = kani::any(); assert!(x != 77); }\n}'
        emitted = normalise(w.text, mp)
        w.emitted_lines = emitted.count('\n') + 1
        text = emitted + '\n' + extern_defs(w) + '\n' + harness + '\n'
        # disambiguate harness names across witnesses
        for n in names:
            text = text.replace('fn %s()' % n, 'fn w%d_%s()' % (w.idx, n))
            allnames['w%d_%s' % (w.idx, n)] = w
        open(os.path.join(crate, 'src', 'w%d' % w.idx, 'm.rs'), 'w').write(text)
    lib.append('#[cfg(kani)]\nmod outside_probe {\n' + '\n'.join(gen_outside(w) for w in witnesses) + '\n}')
    open(os.path.join(crate, 'src', 'lib.rs'), 'w').write('\n'.join(lib) + '\n')
    return crate, allnames
