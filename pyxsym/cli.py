import sys, os, importlib, argparse
from .check import Run, replay_file, EXIT_INCONCLUSIVE


def main():
    ap = argparse.ArgumentParser()
    ap.add_argument('prop')
    ap.add_argument('--tier', default=os.environ.get('VERIF_TIER', 'quick'))
    ap.add_argument('--replay')
    ns = ap.parse_args()
    if ns.replay:
        sys.exit(replay_file(ns.replay))
    seed = int(os.environ.get('VERIF_SEED', '0') or 0)
    try:
        prop = importlib.import_module('pyxsym.props.' + ns.prop.lower())
    except ImportError as e:
        print('no check for property %s: %s' % (ns.prop, e)); sys.exit(EXIT_INCONCLUSIVE)
    tier = ns.tier if ns.tier in ('quick', 'thorough') else 'quick'
    sys.exit(Run(prop, tier, seed).run())


if __name__ == '__main__':
    main()
