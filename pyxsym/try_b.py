import sys, json, os, time
os.environ.setdefault('VERIF_REPO','/tmp/wt/dev')
from pyxsym.session import Session
from pyxsym import engineb as B
S = Session()
work='/var/tmp/pyxis-verif/kani-try'; os.makedirs(work, exist_ok=True)
cases=[('t_inherit',[8,1,1,1,1,0,1,0,0,0,0,0,1,0]), ('t_enum',[8,2,3,1,1,0,0,0, 0,0,0, 1,5,1, 0,0,0]), ('t_layout',[8,2,1,32,1,8,0, 0,13,2,0,0,4,4,1, 3,13,3,1,8,8,8,1]),
       ('t_vft',[8,2,1,5, 1,1, 1,1,0,0,0,1,0,1, 1,3, 2,0,0,0,0,0,0,1])]
ws=[]
for i,(t,a) in enumerate(cases):
    summ, files = B.emit(S, t, a, work)
    print(t, summ[0], list(files))
    if summ[0]!='ok': print(summ); continue
    ws.append(B.Witness(i,t,a,summ,files['m.rs']))
crate, names = B.build_crate(work, ws)
print(len(names),'harnesses')
t=time.time(); r=B.run_kani(crate, names); print('rc',r['rc'], r['seconds'],'s')
print(r["summary"], r["compile_error"])

