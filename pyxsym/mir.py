"""Parser for `rustc -Zunpretty=mir` text: turns the dump of the pyxis crate into
structured bodies (blocks / statements / terminators) for the symbolic interpreter.

Nothing here knows about pyxis; it only knows the textual MIR syntax of the pinned nightly.
Unknown syntax is kept as ('unsupported', text) and raises only if executed.
"""
import re, hashlib, pickle, os, json

INT_T = {'usize': (64, False), 'isize': (64, True), 'u8': (8, False), 'u16': (16, False), 'u32': (32, False),
         'u64': (64, False), 'u128': (128, False), 'i8': (8, True), 'i16': (16, True), 'i32': (32, True),
         'i64': (64, True), 'i128': (128, True), 'char': (32, False)}

BINOPS = {'Add', 'Sub', 'Mul', 'Div', 'Rem', 'BitXor', 'BitAnd', 'BitOr', 'Shl', 'Shr', 'Eq', 'Lt', 'Le', 'Ne', 'Ge',
          'Gt', 'Cmp', 'Offset', 'AddWithOverflow', 'SubWithOverflow', 'MulWithOverflow', 'AddUnchecked',
          'SubUnchecked', 'MulUnchecked', 'ShlUnchecked', 'ShrUnchecked'}
UNOPS = {'Not', 'Neg', 'PtrMetadata'}


class Fn:
    __slots__ = ('name', 'header', 'args', 'locals', 'blocks', 'ret', 'kind', 'first_arg_ty', 'arg_tys')

    def __init__(self, name, header, kind):
        self.name = name; self.header = header; self.kind = kind
        self.args = []; self.locals = {}; self.blocks = {}; self.ret = None; self.first_arg_ty = None; self.arg_tys = []


# ---------------------------------------------------------------- low-level text helpers
def skip_string(s, i):
    """s[i] == '"' ; return index just after the closing quote"""
    i += 1
    n = len(s)
    while i < n:
        c = s[i]
        if c == '\\':
            i += 2; continue
        if c == '"': return i + 1
        i += 1
    raise ValueError('unterminated string: ' + s[:80])


def split_top(s, sep=','):
    """split on sep at bracket depth 0; understands strings, '->', '=>' and char literals"""
    out = []; depth = 0; start = 0; i = 0; n = len(s)
    while i < n:
        c = s[i]
        if c == '"':
            i = skip_string(s, i); continue
        if c == 'b' and i + 1 < n and s[i + 1] == '"' and (i == 0 or not (s[i - 1].isalnum() or s[i - 1] == '_')):
            i = skip_string(s, i + 1); continue
        if c == "'" and i + 2 < n:
            # char literal 'x' or '\n' (lifetimes 'a have no closing quote nearby)
            if s[i + 1] == '\\':
                j = s.find("'", i + 2)
                if j != -1 and j - i <= 8: i = j + 1; continue
            elif s[i + 2] == "'":
                i += 3; continue
        if c in '-=' and i + 1 < n and s[i + 1] == '>':
            i += 2; continue
        if c in '([{<':
            depth += 1
        elif c in ')]}>':
            depth -= 1
        elif c == sep and depth == 0:
            out.append(s[start:i].strip()); start = i + 1
        i += 1
    last = s[start:].strip()
    if last: out.append(last)
    return out


def match_close(s, i):
    """s[i] is an opening bracket; index of its matching close"""
    pairs = {'(': ')', '[': ']', '{': '}', '<': '>'}
    st = []; n = len(s)
    while i < n:
        c = s[i]
        if c == '"':
            i = skip_string(s, i); continue
        if c in '-=' and i + 1 < n and s[i + 1] == '>':
            i += 2; continue
        if c in pairs:
            st.append(pairs[c])
        elif st and c == st[-1]:
            st.pop()
            if not st: return i
        i += 1
    raise ValueError('unbalanced: ' + s[:120])


def strip_generics(name):
    """remove every <...> group that is a generic-argument list (preceded by '::' or an identifier char),
    keeping `<impl at ...>` and leading `<T as Trait>` forms intact"""
    out = []; i = 0; n = len(name)
    while i < n:
        c = name[i]
        if c == '<' and i > 0 and not name.startswith('<impl', i):
            # generic args when preceded by '::' or ident char
            prev = name[i - 1]
            if prev == ':' or prev.isalnum() or prev == '_':
                j = match_close(name, i)
                i = j + 1
                if out and out[-1] == ':' and len(out) > 1 and out[-2] == ':':
                    out.pop(); out.pop()  # drop the '::' of a turbofish
                continue
        out.append(c); i += 1
    return ''.join(out)


# ---------------------------------------------------------------- places / operands / constants
def parse_place(p):
    p = p.strip()
    m = re.fullmatch(r'_\d+', p)
    if m: return (p, ())
    if p.startswith('(*') and p.endswith(')') and match_close(p, 0) == len(p) - 1:
        b, pr = parse_place(p[2:-1])
        return (b, pr + (('deref',),))
    if p.startswith('(') and match_close(p, 0) == len(p) - 1:
        inner = p[1:-1]
        # downcast: BASE as Variant
        m = re.match(r'^(.*) as ([A-Za-z_][A-Za-z0-9_]*)$', inner)
        if m:
            try:
                b, pr = parse_place(m.group(1))
                return (b, pr + (('downcast', m.group(2)),))
            except ValueError:
                pass
        # field: BASE.IDX: TYPE
        if inner.startswith('('):
            e = match_close(inner, 0); base = inner[:e + 1]; rest = inner[e + 1:]
        else:
            m = re.match(r'(_\d+)(.*)$', inner, re.S)
            if not m: raise ValueError('place ' + p)
            base = m.group(1); rest = m.group(2)
        # BASE may be followed by index projections before the field
        b, pr = parse_place(base)
        while rest.startswith('['):
            e = match_close(rest, 0)
            pr = pr + (parse_index(rest[1:e]),)
            rest = rest[e + 1:]
        m = re.match(r'\.(\d+): (.*)$', rest, re.S)
        if not m: raise ValueError('place ' + p)
        return (b, pr + (('field', int(m.group(1)), m.group(2)),))
    # trailing index projection: BASE[...]
    if p.endswith(']'):
        # find the matching '[' of the last ']'
        depth = 0
        for i in range(len(p) - 1, -1, -1):
            if p[i] == ']': depth += 1
            elif p[i] == '[':
                depth -= 1
                if depth == 0: break
        b, pr = parse_place(p[:i])
        return (b, pr + (parse_index(p[i + 1:-1]),))
    raise ValueError('place ' + p)


def parse_index(t):
    t = t.strip()
    if re.fullmatch(r'_\d+', t): return ('index', t)
    m = re.fullmatch(r'(-?)(\d+) of (\d+)', t)
    if m: return ('constidx', int(m.group(2)), int(m.group(3)), bool(m.group(1)))
    m = re.fullmatch(r'(\d+):(-?)(\d*)', t)
    if m: return ('subslice', int(m.group(1)), int(m.group(3) or 0), bool(m.group(2)))
    raise ValueError('index ' + t)


_ESC = {'n': '\n', 't': '\t', 'r': '\r', '0': '\0', '\\': '\\', '"': '"', "'": "'"}


def unescape_str(body):
    out = []; i = 0; n = len(body)
    while i < n:
        c = body[i]
        if c != '\\':
            out.append(c); i += 1; continue
        d = body[i + 1]
        if d in _ESC:
            out.append(_ESC[d]); i += 2
        elif d == 'x':
            out.append(chr(int(body[i + 2:i + 4], 16))); i += 4
        elif d == 'u':
            j = body.index('}', i); out.append(chr(int(body[i + 3:j], 16))); i = j + 1
        elif d == '\n':
            i += 2
            while i < n and body[i] in ' \t\n': i += 1
        else:
            raise ValueError('escape ' + body[i:i + 6])
    return ''.join(out)


def unescape_bytes(body):
    out = bytearray(); i = 0; n = len(body)
    while i < n:
        c = body[i]
        if c != '\\':
            out.extend(c.encode('utf8')); i += 1; continue
        d = body[i + 1]
        if d == 'x':
            out.append(int(body[i + 2:i + 4], 16)); i += 4
        elif d in _ESC:
            out.append(ord(_ESC[d])); i += 2
        else:
            raise ValueError('byte escape ' + body[i:i + 6])
    return bytes(out)


def parse_const(c):
    c = c.strip()
    m = re.fullmatch(r'(-?\d+)_([a-z]+\d*|usize|isize)', c)
    if m and m.group(2) in INT_T: return ('int', int(m.group(1)), INT_T[m.group(2)])
    if c == 'true': return ('bool', True)
    if c == 'false': return ('bool', False)
    if c == '()': return ('unit',)
    if c == '[]': return ('arr0',)
    if c.startswith('"'): return ('str', unescape_str(c[1:skip_string(c, 0) - 1]))
    if c.startswith('b"'): return ('bytes', unescape_bytes(c[2:skip_string(c, 1) - 1]))
    if c.startswith("'"):
        return ('int', ord(unescape_str(c[1:-1])), INT_T['char'])
    m = re.fullmatch(r'(.*)::promoted\[(\d+)\]', c)
    if m: return ('promoted', c)
    if c.startswith('ZeroSized: '): return ('zst', c[len('ZeroSized: '):])
    m = re.fullmatch(r'\{(alloc\d+.*)\}', c)
    if m: return ('alloc', c)
    return ('path', c)  # fn item, unit variant / unit struct constant, named const


def parse_operand(o):
    o = o.strip()
    for pre, k in (('no_retag copy ', 'copy'), ('copy ', 'copy'), ('move ', 'move')):
        if o.startswith(pre): return (k, parse_place(o[len(pre):]))
    if o.startswith('const '): return ('const', parse_const(o[6:]))
    if re.match(r'^[A-Za-z_<]', o) and not re.match(r'^(copy|move|const)\b', o):
        return ('const', ('path', o))  # bare fn item / constructor used as a value
    raise ValueError('operand ' + o)


def ty_strip_ref(t):
    t = t.strip()
    for pre in ('&mut ', '&', '*const ', '*mut '):
        if t.startswith(pre):
            t = t[len(pre):].strip()
            if t.startswith("'"):  # lifetime
                t = t.split(' ', 1)[1] if ' ' in t else t
                if t.startswith('mut '): t = t[4:]
            return t
    m = re.match(r'(?:std::boxed::|alloc::boxed::)?Box<(.*)>$', t)
    if m: return split_top(m.group(1))[0]
    return None


# ---------------------------------------------------------------- rvalues / statements / terminators
def parse_adt_name(text):
    """`Option::<usize>::Some` -> ('Option', 'Some'); `Region` -> ('Region', None); returns stripped path + last seg"""
    return strip_generics(text)


def parse_rvalue(r):
    r = r.strip()
    if r.startswith(('copy ', 'move ', 'no_retag copy ', 'const ')):
        # cast?  `copy _2 as usize (IntToInt)`
        m = re.match(r'^(.*) as (.*) \(([A-Za-z]+(?:\(.*\))?)\)$', r, re.S)
        if m:
            try:
                return ('cast', parse_operand(m.group(1)), m.group(2), m.group(3))
            except ValueError:
                pass
        return ('use', parse_operand(r))
    if r.startswith('&'):
        p = re.sub(r'^&(?:raw const \(fake\) |raw mut \(fake\) |raw const |raw mut |mut |fake shallow |fake )?', '', r)
        return ('ref', parse_place(p))
    m = re.match(r'^([A-Za-z]+)\((.*)\)$', r, re.S)
    if m and m.group(1) in BINOPS:
        a, b = split_top(m.group(2))
        return ('binop', m.group(1), parse_operand(a), parse_operand(b))
    if m and m.group(1) in UNOPS:
        return ('unop', m.group(1), parse_operand(m.group(2)))
    if m and m.group(1) == 'discriminant':
        return ('discr', parse_place(m.group(2)))
    if m and m.group(1) == 'Len':
        return ('len', parse_place(m.group(2)))
    if r.startswith('(') and match_close(r, 0) == len(r) - 1:
        inner = r[1:-1].strip()
        if inner.endswith(','): inner = inner[:-1]
        return ('tuple', [parse_operand(x) for x in split_top(inner)])
    if r.startswith('['):
        inner = r[1:-1]
        parts = split_top(inner, ';')
        if len(parts) == 2:
            return ('repeat', parse_operand(parts[0]), parts[1].strip())
        return ('array', [parse_operand(x) for x in split_top(inner)])
    if r.startswith('{closure@') or r.startswith('{coroutine@'):
        e = match_close(r, 0)
        loc = r[1:e]
        rest = r[e + 1:].strip()
        ops = []
        if rest.startswith('{'):
            for f in split_top(rest[1:-1]):
                ops.append(parse_operand(f.split(': ', 1)[1]))
        return ('closure', loc, ops)
    # ADT aggregates:  Path { f: op, .. } | Path(op, ..) | Path
    if r.endswith('}') and ' { ' in r:
        i = r.index(' { ')
        name = r[:i]
        body = r[i + 3:-1].strip()
        ops = []
        for f in split_top(body):
            ops.append(parse_operand(f.split(': ', 1)[1]))
        return ('adt', strip_generics(name), ops)
    if r.endswith(')'):
        # find the '(' matching the final ')'
        depth = 0
        for i in range(len(r) - 1, -1, -1):
            if r[i] == ')': depth += 1
            elif r[i] == '(':
                depth -= 1
                if depth == 0: break
        name = r[:i]
        if re.fullmatch(r'[A-Za-z_][\w:<>,& \'\[\];()*-]*', name):
            return ('adt', strip_generics(name), [parse_operand(x) for x in split_top(r[i + 1:-1])])
    if re.fullmatch(r'[A-Za-z_<][\w:<>,& \'\[\];()*-]*', r):
        return ('adt', strip_generics(r), [])
    raise ValueError('rvalue ' + r)


def parse_stmt(t):
    if t.startswith(('StorageLive', 'StorageDead', 'nop', 'FakeRead', 'PlaceMention', 'Retag', 'AscribeUserType',
                     'Coverage', 'ConstEvalCounter', 'BackwardIncompatibleDropHint')):
        return None
    m = re.match(r'^discriminant\((.*)\) = (\d+)$', t)
    if m: return ('setdiscr', parse_place(m.group(1)), int(m.group(2)))
    if t.startswith('Deinit('): return None
    if t.startswith('assume('): return None
    i = find_assign(t)
    if i < 0: raise ValueError('stmt ' + t)
    lhs = t[:i]; rhs = t[i + 3:]
    return ('assign', parse_place(lhs), parse_rvalue(rhs))


def find_assign(t):
    """index of the top-level ' = ' separating lhs place and rhs"""
    depth = 0; i = 0; n = len(t)
    while i < n:
        c = t[i]
        if c == '"': i = skip_string(t, i); continue
        if c in '-=' and i + 1 < n and t[i + 1] == '>': i += 2; continue
        if c in '([{<': depth += 1
        elif c in ')]}>': depth -= 1
        elif c == ' ' and depth == 0 and t.startswith(' = ', i): return i
        i += 1
    return -1


def parse_targets(t):
    """text after '-> ' : either 'bbN' or '[return: bb1, unwind: bb2]' / '[success: ..]' / 'unwind continue'"""
    t = t.strip()
    if t.startswith('['):
        d = {}
        for part in split_top(t[1:match_close(t, 0)]):
            k, v = part.split(': ', 1) if ': ' in part else (part.split(' ')[0], part)
            d[k.strip()] = v.strip()
        return d
    return {'unwind': t}


def parse_term(t):
    if t == 'return': return ('return',)
    if t == 'unreachable': return ('unreachable',)
    if t.startswith('resume') or t.startswith('terminate') or t.startswith('abort'): return ('resume',)
    if t.startswith('goto -> '): return ('goto', t[8:].strip())
    if t.startswith('switchInt('):
        e = match_close(t, len('switchInt'))
        op = parse_operand(t[len('switchInt('):e])
        arms = []; other = None
        tg = t[e + 1:].strip()
        assert tg.startswith('-> [')
        for arm in split_top(tg[4:-1]):
            k, dst = arm.split(': ')
            if k == 'otherwise': other = dst
            else: arms.append((int(k), dst))
        return ('switch', op, arms, other)
    if t.startswith('drop('):
        e = match_close(t, 4)
        tg = parse_targets(t[e + 1:].strip()[3:])
        return ('drop', parse_place(t[5:e]), tg.get('return'))
    if t.startswith('assert('):
        e = match_close(t, 6)
        args = split_top(t[7:e])
        cond = args[0]; neg = False
        if cond.startswith('!'): neg = True; cond = cond[1:]
        msg = args[1] if len(args) > 1 else ''
        tg = parse_targets(t[e + 1:].strip()[3:])
        return ('assert', parse_operand(cond), neg, msg, [parse_operand_lenient(a) for a in args[2:]], tg.get('success'))
    if t.startswith(('falseEdge', 'falseUnwind')):
        tg = parse_targets(t.split('->', 1)[1])
        return ('goto', tg.get('real') or tg.get('unwind'))
    # call:  DEST = CALLEE(ARGS) -> [return: bbN, unwind ..]   (or diverging: -> unwind ..)
    i = find_assign(t)
    if i >= 0:
        lhs = t[:i]; rest = t[i + 3:]
        j = rest.rfind(' -> ')
        call = rest[:j].strip(); tg = parse_targets(rest[j + 4:])
        # split callee and args: last top-level (...) group
        assert call.endswith(')'), t
        depth = 0
        k = len(call) - 1
        # careful with strings inside args
        k = find_call_paren(call)
        callee = call[:k]; args = split_top(call[k + 1:-1])
        if callee.startswith(('move ', 'copy ')):
            fn = ('dyn', parse_operand(callee))
        else:
            fn = ('static', callee)
        return ('call', parse_place(lhs), fn, [parse_operand(a) for a in args], tg.get('return'))
    raise ValueError('terminator ' + t)


def parse_operand_lenient(a):
    try: return parse_operand(a)
    except ValueError: return ('const', ('path', a))


def find_call_paren(call):
    """index of the '(' that opens the argument list of `CALLEE(ARGS)`: the first top-level '(' whose match is the end"""
    i = 0; n = len(call)
    depth = 0
    while i < n:
        c = call[i]
        if c == '"': i = skip_string(call, i); continue
        if c in '-=' and i + 1 < n and call[i + 1] == '>': i += 2; continue
        if c == '(' and depth == 0:
            try:
                if match_close(call, i) == n - 1: return i
            except ValueError:
                pass
            depth += 1
        elif c in '([{<': depth += 1
        elif c in ')]}>': depth -= 1
        i += 1
    raise ValueError('call ' + call)


# ---------------------------------------------------------------- bodies
def header_name(header):
    """'fn NAME(args) -> ret {' -> (NAME, index of '(')  ; NAME may contain '<impl at ...>' and generics"""
    s = header
    depth = 0; i = 0; n = len(s)
    while i < n:
        c = s[i]
        if c in '-=' and i + 1 < n and s[i + 1] == '>': i += 2; continue
        if c == '<': depth += 1
        elif c == '>': depth -= 1
        elif c == '(' and depth == 0: return s[:i], i
        i += 1
    raise ValueError(header)


def parse_body(lines):
    header = lines[0]
    if header.startswith('fn '):
        name, pi = header_name(header[3:])
        f = Fn(name, header, 'fn')
        h = header[3:]
        close = match_close(h, pi)
        for a in split_top(h[pi + 1:close]):
            m = re.match(r'(_\d+): (.*)$', a, re.S)
            if m:
                f.args.append(m.group(1)); f.locals[m.group(1)] = m.group(2); f.arg_tys.append(m.group(2))
        m = re.search(r'\) -> (.*) \{$', h[close:])
        f.ret = m.group(1) if m else '()'
        f.first_arg_ty = f.arg_tys[0] if f.arg_tys else None
    else:
        # const NAME: TY = {     |  static NAME: TY = {  | promoted
        m = re.match(r'^(const|static(?: mut)?) (.*?): (.*) = \{$', header)
        if not m:
            m2 = re.match(r'^(const|static) (.*) = \{$', header)
            if not m2: raise ValueError(header)
            # name contains ': ' inside <impl at a:1:2: 3:4>; split at the last ': ' before ' = {'
            body = m2.group(2)
            k = body.rfind(': ')
            f = Fn(body[:k], header, 'const'); f.ret = body[k + 2:]
        else:
            # the lazy match may stop inside '<impl at f:1:2: 3:4>'; fix by balancing '<'
            body = header[len(m.group(1)) + 1:-len(' = {')]
            depth = 0; k = -1; i = 0
            while i < len(body):
                c = body[i]
                if c in '-=' and body[i + 1:i + 2] == '>': i += 2; continue
                if c in '<([{': depth += 1
                elif c in '>)]}': depth -= 1
                elif c == ':' and depth == 0 and body[i + 1:i + 2] == ' ':
                    k = i; break
                i += 1
            f = Fn(body[:k], header, 'const'); f.ret = body[k + 2:]
    cur = None; stmts = None
    for line in lines[1:]:
        t = line.strip()
        if cur is None:
            m = re.match(r'let (?:mut )?(_\d+): (.*);$', t, re.S)
            if m: f.locals[m.group(1)] = m.group(2); continue
            m = re.match(r'(bb\d+)( \(cleanup\))?: \{$', t)
            if m:
                cur = m.group(1); stmts = []; cleanup = bool(m.group(2))
            continue
        if t == '}':
            if cleanup:
                f.blocks[cur] = ([], ('resume',))
            else:
                f.blocks[cur] = (stmts[:-1], stmts[-1])
            cur = None
        elif t:
            stmts.append(t)
    return f


def join_statements(block_lines):
    """statements end with ';' at the end of a line; multi-line string constants are joined"""
    out = []; buf = ''
    for t in block_lines:
        buf = (buf + '\n' + t) if buf else t
        if buf.endswith(';') and balanced_quotes(buf):
            out.append(buf[:-1]); buf = ''
    if buf: out.append(buf)
    return out


def balanced_quotes(s):
    i = 0; n = len(s)
    while i < n:
        if s[i] == '"':
            try: i = skip_string(s, i)
            except ValueError: return False
            continue
        i += 1
    return True


_SIMPLE_CONST = re.compile(r'^const ([A-Za-z_][\w:]*): (usize|isize|u8|u16|u32|u64|u128|i8|i16|i32|i64|i128|bool) = const ([\w-]+);$')


def split_bodies(text):
    out = []; cur = None
    for line in text.split('\n'):
        if cur is None:
            if (line.startswith(('fn ', 'const ', 'static ')) and line.rstrip().endswith('{')):
                cur = [line]
            else:
                # a constant item whose value is a plain scalar is printed on one line (`const N: usize = const 8_usize;`): give it the
                # body the long form would have, so that a use of the named constant can be evaluated
                m = _SIMPLE_CONST.match(line)
                if m and '{' not in m.group(1):
                    out.append(['const %s: %s = {' % (m.group(1), m.group(2)), '    let mut _0: %s;' % m.group(2), '', '    bb0: {',
                                '        _0 = const %s;' % m.group(3), '        return;', '    }', '}'])
        else:
            cur.append(line)
            if line == '}':
                out.append(cur); cur = None
    return out


def compile_fn(f):
    """parse the raw statement strings of every block into tuples (lazy errors kept as ('unsupported', text, err))"""
    newblocks = {}
    for bb, (stmts, term) in f.blocks.items():
        if isinstance(term, tuple):
            newblocks[bb] = (stmts, term); continue
        raw = join_statements(stmts + [term + ';' if not term.endswith(';') else term])
        ps = []
        for t in raw[:-1]:
            try:
                s = parse_stmt(t)
            except (ValueError, AssertionError, IndexError) as e:
                s = ('unsupported', t, str(e))
            if s is not None: ps.append(s)
        try:
            pt = parse_term(raw[-1])
        except (ValueError, AssertionError, IndexError) as e:
            pt = ('unsupported', raw[-1], str(e))
        newblocks[bb] = (ps, pt)
    f.blocks = newblocks
    return f


def parse_dump(path, cache_dir=None):
    data = open(path, 'rb').read()
    h = hashlib.sha256(data + open(__file__, 'rb').read()).hexdigest()[:16]
    if cache_dir:
        cp = os.path.join(cache_dir, 'mir-%s.pkl' % h)
        if os.path.exists(cp):
            with open(cp, 'rb') as fh: return pickle.load(fh)
    text = data.decode('utf8')
    fns = {}
    for chunk in split_bodies(text):
        try:
            f = parse_body(chunk)
        except ValueError as e:
            continue
        compile_fn(f)
        fns.setdefault(f.name, []).append(f)
    if cache_dir:
        os.makedirs(cache_dir, exist_ok=True)
        with open(cp, 'wb') as fh: pickle.dump(fns, fh)
    return fns


if __name__ == '__main__':
    import sys, collections
    fns = parse_dump(sys.argv[1])
    nb = sum(len(f.blocks) for fs in fns.values() for f in fs)
    print(len(fns), 'names', sum(len(v) for v in fns.values()), 'bodies', nb, 'blocks')
    bad = collections.Counter()
    for fs in fns.values():
        for f in fs:
            if 'parser' in f.name or 'write_module' in f.name or 'kw::' in f.name: continue
            for bb, (stmts, term) in f.blocks.items():
                for s in stmts + [term]:
                    if s[0] == 'unsupported':
                        bad[(f.name[:60], s[1][:160], s[2][:80])] += 1
    for k, v in bad.most_common(60): print(v, k)
    print('unsupported total', sum(bad.values()))
