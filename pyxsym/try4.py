import sys, time
import z3
from pyxsym.session import *
S = Session(); I = S.interp()
x,y = z3.BitVecs('x y',64)
I.assumptions=[z3.ULE(x,16), z3.ULE(y,16)]
I.summarize={'gcd'}
I.max_steps=2000
t=time.time()
leaf,p = I.run_path('gcd',[1,x],[])
print(leaf.kind, leaf.value, len(p), time.time()-t)
for k,v in I.summary_cache.items():
    print(k, len(v))
    for l in v[:30]: print('  ', l[1], l[2] if l[1]!='ret' else z3.simplify(l[2]), [str(z3.simplify(c))[:60] for c in l[0]][:6])
