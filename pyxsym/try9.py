import sys, time, collections, random
import z3
from pyxsym.session import *
from pyxsym.props import c03
S = Session()
sl = [s for s in c03.slices('quick', random.Random(0)) if s.name==sys.argv[1]][0]
a = sym_args(sl.nparams); A = sl.assume(a)
I = S.interp(assumptions=A); I.summarize={'gcd'}
slow=[]
orig = z3.Solver.check
def chk(self,*args):
    t=time.time(); r=orig(self,*args); d=time.time()-t
    slow.append((d, str(args[0])[:300] if args else '', I.stack[-1] if I.stack else '', self is I.bsolver, len(I.pc)))
    return r
z3.Solver.check = chk
leaves=[]; work=[{}]; t=time.time()
N=int(sys.argv[2])
while work and len(leaves)<N:
    leaf,p = I.run_path('t_layout',[args_value(a)],work.pop(0) if len(leaves)%2 else work.pop()); work.extend(p); leaves.append(leaf)
tot=time.time()-t
print(len(leaves), round(tot,1), 'checks', len(slow), 'solver', round(sum(s[0] for s in slow),1), 'bsolver', round(sum(s[0] for s in slow if s[3]),1), 'nb', sum(1 for s in slow if s[3]))
slow.sort(reverse=True)
for s in slow[:12]: print(round(s[0],3), s[3], s[4], s[2][-40:], s[1][:150].replace('\n',' '))
by=collections.Counter()
for d,c,f,b,n in slow: by[(f[-50:],b)]+=d
print(by.most_common(8))
