"""Links a parsed MIR dump into a Program: definition index, impl table (from rustdoc JSON, with a
source-text fallback for function-local impls), enum variant tables, closure index, and callee resolution."""
import re, json, os
from . import mir
from .mir import strip_generics, split_top, match_close

STD_ENUMS = {
    'Option': ['None', 'Some'],
    'Result': ['Ok', 'Err'],
    'ControlFlow': ['Continue', 'Break'],
    'Cow': ['Borrowed', 'Owned'],
    'Ordering': ['Less', 'Equal', 'Greater'],
}


class Unsupported(Exception):
    pass


def segs(path):
    return [s for s in path.split('::') if s]


def clean_type(t):
    """'&'a mut grammar::ItemPath' -> 'grammar::ItemPath' (strip refs and generics)"""
    t = t.strip()
    while True:
        if t.startswith('&'):
            t = t[1:].strip()
            if t.startswith("'"): t = t.split(' ', 1)[1] if ' ' in t else ''
            if t.startswith('mut '): t = t[4:]
            continue
        break
    return strip_generics(t)


class Program:
    def __init__(self, fns, rustdoc_json, src_root):
        self.fns = fns
        self.src_root = src_root
        self.by_name = {}
        for name, fs in fns.items():
            self.by_name[name] = fs[0]
        self.closures = {}
        self.enums = {}      # tuple(path segs) -> [variants]
        self.inherent = {}   # method -> [(selfsegs, Fn)]
        self.traitimpls = {}  # (trait, method) -> [(selfsegs, traitargs, Fn)]
        self.free = {}       # last segment -> [(segs, Fn)]
        self.impl_info = {}  # (file, line, col) -> (selfsegs, trait or None, traitargs)
        self._resolve_cache = {}
        self._ev_cache = {}
        self._load_rustdoc(rustdoc_json)
        self._index()

    # ------------------------------------------------------------ rustdoc
    def _load_rustdoc(self, path):
        d = json.load(open(path))
        idx = d['index']; paths = d['paths']
        self.struct_fields = {}
        for k, it in idx.items():
            if it.get('crate_id') != 0: continue
            inner = it['inner']
            if 'enum' in inner:
                p = paths.get(k, {}).get('path') or [it['name']]
                self.enums[tuple(p[1:] if p and p[0] == 'pyxis' else p)] = [idx[str(v)]['name'] for v in inner['enum']['variants']]
            elif 'struct' in inner:
                p = paths.get(k, {}).get('path') or [it['name']]
                kind = inner['struct']['kind']
                if isinstance(kind, dict) and 'plain' in kind:
                    self.struct_fields[tuple(p[1:])] = [idx[str(f)]['name'] for f in kind['plain']['fields']]
            elif 'impl' in inner and it.get('span'):
                im = inner['impl']; sp = it['span']
                ft = im['for']
                selfsegs = None
                if 'resolved_path' in ft:
                    rp = ft['resolved_path']
                    pp = paths.get(str(rp['id']), {}).get('path')
                    selfsegs = tuple(pp[1:] if pp and pp[0] == 'pyxis' else (pp or segs(rp['path'])))
                elif 'borrowed_ref' in ft and 'resolved_path' in ft['borrowed_ref']['type']:
                    rp = ft['borrowed_ref']['type']['resolved_path']
                    pp = paths.get(str(rp['id']), {}).get('path')
                    selfsegs = ('&',) + tuple(pp[1:] if pp and pp[0] == 'pyxis' else (pp or segs(rp['path'])))
                if selfsegs is None: continue
                tr = None; targs = ''
                if im['trait']:
                    tr = segs(im['trait']['path'])[-1]
                    targs = json.dumps(im['trait'].get('args'))
                self.impl_info[(sp['filename'], sp['begin'][0], sp['begin'][1])] = (selfsegs, tr, targs)
        for name, vs in STD_ENUMS.items():
            self.enums[(name,)] = vs

    def _impl_from_source(self, file, line, col):
        """fallback for impls rustdoc does not list (items local to a function body)"""
        try:
            lines = open(os.path.join(self.src_root, file)).read().split('\n')
        except OSError:
            return None
        text = lines[line - 1][col - 1:]
        if text.startswith('impl'):
            hdr = ' '.join(l.strip() for l in lines[line - 1:line + 2])
            hdr = hdr[hdr.index('impl'):]
            m = re.match(r'impl(?:<[^>]*>)?\s+(?:([\w:]+)(?:<[^{]*?>)?\s+for\s+)?(&?\s*[\w:]+)', hdr)
            if not m: return None
            tr = segs(m.group(1))[-1] if m.group(1) else None
            return (tuple(segs(m.group(2).replace('&', '').strip())), tr, '')
        m = re.match(r'(\w+)', text)
        if not m: return None
        tr = m.group(1)
        for l in lines[line:line + 12]:
            mm = re.search(r'\b(?:struct|enum)\s+(\w+)', l)
            if mm: return ((mm.group(1),), tr, '')
        return None

    # ------------------------------------------------------------ index
    IMPL_RE = re.compile(r'<impl at ([^:>]+):(\d+):(\d+): \d+:\d+>')

    def _index(self):
        for name, f in self.by_name.items():
            if f.kind != 'fn': continue
            m = re.search(r'\{closure@([^}]*)\}', f.first_arg_ty or '')
            if '{closure#' in name.split('::')[-1] and m:
                self.closures['closure@' + m.group(1)] = f
                continue
            if '{closure#' in name: continue
            im = list(self.IMPL_RE.finditer(name))
            if im:
                last = im[-1]
                rest = name[last.end():]
                if not rest.startswith('::'): continue
                method = rest[2:]
                if '::' in strip_generics(method): continue  # nested item inside a method
                method = strip_generics(method)
                key = (last.group(1), int(last.group(2)), int(last.group(3)))
                info = self.impl_info.get(key) or self._impl_from_source(*key)
                if info is None: continue
                selfsegs, tr, targs = info
                if tr is None:
                    self.inherent.setdefault(method, []).append((selfsegs, f))
                else:
                    self.traitimpls.setdefault((tr, method), []).append((selfsegs, targs, f))
            else:
                s = segs(strip_generics(name))
                if s: self.free.setdefault(s[-1], []).append((tuple(s), f))

    # ------------------------------------------------------------ ADT helpers
    def enum_variant(self, path_text):
        """'types::Type::Raw' -> (enum path, 'Raw', idx) if the prefix names a known enum having that variant"""
        try:
            return self._ev_cache[path_text]
        except KeyError:
            r = self._enum_variant(path_text)
            self._ev_cache[path_text] = r
            return r

    def _enum_variant(self, path_text):
        s = segs(path_text)
        if len(s) < 2: return None
        pre = tuple(s[:-1]); var = s[-1]
        cands = []
        for ep, vs in self.enums.items():
            if var not in vs: continue
            n = min(len(ep), len(pre))
            if ep[-n:] == pre[-n:]: cands.append((ep, var, vs.index(var)))
        if not cands: return None
        if len({c[2] for c in cands}) > 1:
            raise Unsupported('ambiguous enum variant ' + path_text)
        return cands[0]

    # ------------------------------------------------------------ callee resolution
    def resolve(self, callee):
        """returns ('mir', Fn) or ('model', key_info) ; cached by callee text"""
        r = self._resolve_cache.get(callee)
        if r is None:
            r = self._resolve(callee)
            self._resolve_cache[callee] = r
        return r

    def _resolve(self, callee):
        c = callee.strip()
        if c.startswith('<'):
            e = match_close(c, 0)
            inner = c[1:e]; rest = c[e + 1:]
            if rest.startswith('::') and ' as ' in inner:
                # split at top-level ' as '
                depth = 0; k = -1
                for i, ch in enumerate(inner):
                    if ch in '<([{': depth += 1
                    elif ch in '>)]}' and inner[i - 1] != '-': depth -= 1
                    elif depth == 0 and inner.startswith(' as ', i): k = i; break
                selfty = inner[:k]; trait = inner[k + 4:]
                method = strip_generics(rest[2:])
                trname = segs(strip_generics(trait))[-1]
                ma = re.match(r'^[\w:]+<(.*)>$', trait.strip(), re.S)
                targs = ma.group(1) if ma else ''
                cands = self.traitimpls.get((trname, method), [])
                st = clean_type(selfty)
                isref = selfty.strip().startswith('&')
                ss = tuple(segs(st))
                hits = []
                for selfsegs, ta, f in cands:
                    cs = selfsegs
                    if cs and cs[0] == '&':
                        if not isref: continue
                        cs = cs[1:]
                    elif isref and trname not in ('IntoIterator',):
                        # `<&T as PartialEq>::eq` is the std blanket impl over &T, not T's impl
                        continue
                    if ss and cs[-len(ss):] == ss:
                        hits.append((selfsegs, ta, f))
                if len(hits) == 1:
                    return ('mir', hits[0][2])
                if len(hits) > 1:
                    # disambiguate by trait args (e.g. From<&str> vs From<String>)
                    want = clean_type(split_top(targs)[0]) if targs else ''
                    for selfsegs, ta, f in hits:
                        if want and want.split('::')[-1] in (f.arg_tys[0] if f.arg_tys else ''):
                            return ('mir', f)
                    return ('mir', hits[0][2])
                return ('model', ('trait', selfty.strip(), trname, method, targs, c))
            # `<impl ...>`-style path heads fall through
        name = strip_generics(c)
        name = re.sub(r'::<impl (?!at )[^<>]*(?:<[^<>]*>[^<>]*)*>$', '', name)   # trailing `::<impl Trait>`: argument-position impl Trait
        f = self.by_name.get(c) or self.by_name.get(name)
        if f is not None: return ('mir', f)
        s = segs(name)
        if not s: return ('model', ('path', name, c))
        method = s[-1]; pre = tuple(s[:-1])
        # constructors / free functions by suffix
        hits = [f for (fs, f) in self.free.get(method, []) if fs[-len(s):] == tuple(s)]
        if len(hits) == 1: return ('mir', hits[0])
        if pre:
            hits = [f for (selfsegs, f) in self.inherent.get(method, []) if selfsegs[-len(pre):] == pre]
            if len(hits) == 1: return ('mir', hits[0])
            if len(hits) > 1:
                raise Unsupported('ambiguous callee %s' % c)
        return ('model', ('path', name, c))


def load_program(mir_path, rustdoc_json, src_root, cache_dir=None):
    fns = mir.parse_dump(mir_path, cache_dir)
    return Program(fns, rustdoc_json, src_root)
