"""C15 — singleton and extern-value accessors address the declared location (semantic stage)."""
import z3
from ..check import Slice, Query
from ..summary import Item, items, is_ok, modules, bv

ID = 'C15'
# fixed witnesses: addresses at and above 2^32, with zero groups, for the type singleton, the enum singleton and extern values
ENGINE_B = {'template': 't_extern', 'kinds': ['singleton_', 'externval_'], 'max_quick': 14, 'max_thorough': 64,
            'fixed': [[8, 1, 0x141234560, 1, 0x7FF612345678, 2, 1, 0x100000000, 3, 1, 1, 0x140001000, 7, 0],
                      [8, 1, 0xFFFFFFFF, 1, 0x10000, 1, 1, 0x100000010, 0, 1], [8, 1, 0x7FFFFFFFFFFFFFF0, 1, 0x1000000000000, 1, 1, 0xFFFF, 8, 1],
                      # a singleton type without fields (size 0)
                      [8, 2, 0x140005000, 0, 0, 1, 1, 0x1000, 2, 1]]}
TYPES = {0: ['raw', 'u32'], 1: ['raw', 'u64'], 2: ['const*', ['raw', 'm::T']], 3: ['mut*', ['raw', 'u8']], 5: ['raw', 'bool'],
         7: ['array', ['raw', 'u32'], 4], 8: ['const*', ['raw', 'm::E']]}
TXT = {0: 'u32', 1: 'u64', 2: '*const T', 3: '*mut u8', 4: 'Nope', 5: 'bool', 6: '*const Nope', 7: '[u32; 4]', 8: '*const E'}
EXPLANATION = ('Template t_extern: a type and an enum with optional #[singleton(A)], and up to two `extern name: T` values with an '
               'optional #[address(A)]; every A is symbolic over the whole isize range, T ranges over scalars, pointers, arrays and '
               'unresolvable names.  The interpreter executes add_module, the attribute handling of type_definition::build / '
               'enum_definition::build and Module::resolve_extern_values.  Accepted leaves: the stored singleton / extern-value '
               'address must equal the declared number and the value\'s type and visibility the declared ones; a declaration '
               'without address, with an unresolvable type, or with an address that is not a non-negative number must be rejected.')
ASSUMPTIONS = ['the accessor bodies emitted by backends/rust.rs (one pointer indirection for struct singletons, none for enum singletons and extern '
               'values) and their behaviour on memory contents are not decided by this check: dereferencing an absolute address cannot be executed by the engines here']


def bounds(tier):
    return {'extern values': '<= 2', 'addresses': 'full isize range (symbolic)', 'pointer_size': [4, 8]}


def assume(a, ps, n):
    A = [a[0] == ps, z3.ULE(a[1], 2), z3.ULE(a[3], 1), a[5] == n]
    for i in range(n):
        b = 6 + 4 * i
        A += [z3.ULE(a[b], 1), z3.ULE(a[b + 2], 8), z3.ULE(a[b + 3], 1)]
    return A


def slices(tier, rng):
    out = []
    for ps in (4, 8):
        for n in (1, 2):
            if tier == 'quick' and ps == 8 and n == 2: continue
            out.append(Slice('n%d-ps%d' % (n, ps), 't_extern', 6 + 4 * n, lambda a, ps=ps, n=n: assume(a, ps, n),
                             opts={'must_reach': ['ok', 'err']}, ctx={'n': n}))
    return out


def acceptable(a, n):
    c = [z3.Implies(a[1] != 0, a[2] >= 0), z3.Implies(a[3] != 0, a[4] >= 0)]
    for i in range(n):
        b = 6 + 4 * i
        c += [a[b] != 0, a[b + 1] >= 0, a[b + 2] != 4, a[b + 2] != 6]
    return z3.And(*c)


def leaf_queries(I, a, leaf, py, sl):
    n = sl.ctx['n']
    if leaf.kind != 'ret': return [Query('no-%s' % leaf.kind, z3.BoolVal(True))]
    acc = acceptable(a, n)
    if not is_ok(py): return [Query('rejected-implies-unacceptable', acc)]
    its = items(py)
    bad = [z3.Not(acc)]
    T = Item(its['m::T']); E = Item(its['m::E'])
    for it, flag, addr in ((T, a[1], a[2]), (E, a[3], a[4])):
        if it.singleton is None: bad.append(flag != 0)
        else: bad += [flag == 0, bv(it.singleton) != addr]
    evs = modules(py)['m'][4]
    if len(evs) != n: bad.append(z3.BoolVal(True))
    for i, ev in enumerate(evs[:n]):
        b = 6 + 4 * i
        _, vis, name, ty, addr = ev
        if name != 'g%d' % i: bad.append(z3.BoolVal(True))
        bad.append(bv(addr) != a[b + 1])
        bad.append(z3.BoolVal(vis == 'pub') != (a[b + 3] != 0))
        for k, want in TYPES.items():
            if ty != want: bad.append(a[b + 2] == k)
    return [Query('stored-addresses-and-types-are-the-declared-ones', z3.Or(*bad))]


def region_env(a, sl):
    n = sl.ctx['n']
    neg = [z3.And(a[3] != 0, a[4] < 0)] + [z3.And(a[6 + 4 * i] != 0, a[6 + 4 * i + 1] < 0) for i in range(n)]
    return {'negative_cast_address': z3.Or(*neg)}


def describe(template, args):
    a = [int(x) for x in args]
    def s64(v):
        v &= (1 << 64) - 1
        return v - (1 << 64) if v >> 63 else v
    out = ['// pointer size %d' % a[0]]
    out.append('%spub type T { %s}' % ('#[singleton(%d)] ' % s64(a[2]) if a[1] else '', '' if a[1] == 2 else 'pub a: *const u8 '))
    out.append('%spub enum E: u32 { A }' % ('#[singleton(%d)] ' % s64(a[4]) if a[3] else ''))
    for i in range(min(a[5], 3)):
        b = 6 + 4 * i
        if b + 4 > len(a): break
        out.append('%s%sextern g%d: %s;' % ('#[address(%d)] ' % s64(a[b + 1]) if a[b] else '', 'pub ' if a[b + 3] else '', i, TXT.get(a[b + 2], '?')))
    return '\n'.join(out)
