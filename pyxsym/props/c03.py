"""C03 — a type description is accepted exactly when it is realisable."""
import z3
from ..check import Slice, Query
from ..layoutspec import Layout, describe as describe_layout, NHEAD, STRIDE, V

ID = 'C03'
EXPLANATION = ('Template t_layout (one type, n fields; kinds: scalar by value, *const, *mut, [T; c], unknown<c>, '
               '[*const T; c]; optional #[address] per field; optional #[size], #[align], #[packed], the latter written before or after the other two) is executed '
               'symbolically over pyxis\'s MIR; on every accepted leaf the solver must refute "not realisable", on every '
               'rejected leaf it must refute "realisable" (realisable = the acceptance condition of the property, written '
               'in SMT over the description\'s parameters only); panicking / non-terminating leaves are violations.')
ASSUMPTIONS = ['scalar field types are represented by extern types whose (size, align) is a symbolic member of '
               '{(1,1),(2,2),(4,4),(8,8),(16,16)} (all built-in scalar classes in one path); a slice with the real '
               'built-in names ties the predefined table in',
               'effective alignment without #[align] = alignment of the sole emitted region, else the pointer size '
               '(the rule documented in type_definition::build)']


def bounds(tier):
    return {'fields': '<= 2 (quick), <= 3 (thorough)', 'numeric': 'addresses, sizes, counts < 2^12 (quick: 2^10); declared align <= 64',
            'pointer_size': [4, 8], 'outside': 'more fields, larger numbers, nested/enum/vftable/base fields (C01/C02/C06)'}


def base_assume(a, n, ps, vmax, kinds, elem='ext', named=None, packed=None, min1=True):
    A = [a[0] == ps, a[1] == n]
    for i in (2, 4): A.append(z3.ULE(a[i], 1))
    A.append(z3.ULE(a[6], 2))          # 2: `packed` written before size / align (attribute order must not matter)
    A += [z3.ULT(a[3], vmax), z3.ULE(a[5], 64)]
    if packed is not None: A.append((a[6] != 0) if packed else (a[6] == 0))
    for i in range(n):
        b = NHEAD + STRIDE * i
        A.append(z3.Or(*[a[b] == k for k in kinds]))
        if elem == 'ext':
            A.append(a[b + 1] == 13)
            A.append(z3.Or(*[z3.And(a[b + 5] == s, a[b + 6] == s) for s in (1, 2, 4, 8, 16)]))
        else:
            A.append(z3.Or(*[a[b + 1] == e for e in elem]))
            A += [a[b + 5] == 0, a[b + 6] == 0]
        A.append(z3.ULT(a[b + 2], vmax))
        if min1: A.append(z3.UGE(a[b + 2], 1))
        A.append(z3.ULE(a[b + 3], 1)); A.append(z3.ULT(a[b + 4], vmax))
        if named is None: A.append(z3.ULE(a[b + 7], 1))
        else: A.append(a[b + 7] == named)
    return A


def slices(tier, rng):
    out = []
    vmax = 1 << (10 if tier == 'quick' else 12)
    def mk(name, n, ps, **kw):
        return Slice(name, 't_layout', NHEAD + STRIDE * n, lambda a, n=n, ps=ps, kw=kw: base_assume(a, n, ps, vmax, **kw),
                     opts={'summarize': ['gcd'], 'must_reach': ['ok', 'err'] if n else ['ok']}, ctx={'n': n})
    for ps in (4, 8):
        out.append(mk('n0-ps%d' % ps, 0, ps, kinds=[0]))
        out.append(mk('n1-ps%d' % ps, 1, ps, kinds=[0, 1, 2, 3, 4, 5]))
        out.append(mk('n1-zero-ps%d' % ps, 1, ps, kinds=[3, 4, 5], min1=False, named=1))
        out.append(mk('n1-builtin-ps%d' % ps, 1, ps, kinds=[0, 3], elem=list(range(13)), named=1, packed=False))
    nmax = 2 if tier == 'quick' else 3
    for ps in (4, 8):
        out.append(mk('n2-ps%d' % ps, 2, ps, kinds=[0, 1, 3, 4], named=1, packed=False))
        out.append(mk('n2-packed-ps%d' % ps, 2, ps, kinds=[0, 1, 3], named=1, packed=True))
        if tier != 'quick':
            out.append(mk('n2-unnamed-ps%d' % ps, 2, ps, kinds=[0, 4], packed=False))
            out.append(mk('n2-zero-ps%d' % ps, 2, ps, kinds=[0, 3, 4], min1=False, named=1, packed=False))
            out.append(mk('n3-ps%d' % ps, 3, ps, kinds=[0, 1, 4], named=1, packed=False))
    return out


def leaf_queries(I, a, leaf, py, sl):
    n = sl.ctx['n']
    L = Layout(a, n)
    R = L.realisable()
    if leaf.kind != 'ret':
        # a panic or a hang is never an acceptable way to reject (and certainly not to accept)
        return [Query('rejects-with-error-not-' + leaf.kind, z3.BoolVal(True))]
    if py[0] == 'ok':
        return [Query('accepted-implies-realisable', z3.Not(R))]
    return [Query('rejected-implies-not-realisable', R)]


def region_env(a, sl):
    n = sl.ctx['n']
    return {'L': Layout(a, n)}


def describe(template, args):
    return describe_layout(args)
