"""C09 — the output is a deterministic function of the input set."""
import itertools, json
import z3
from ..check import Slice, Query
from ..relational import differs, as_z3, is_ok, is_err, pair_same_outcome
from ..values import canon
from . import c10

ID = 'C09'
SKIP_VALIDATION_IN_KNOWN_REGIONS = True
EXPLANATION = ('Product templates build the same description twice in one symbolic run.  The interpreter\'s HashMap/HashSet model gives '
               'the first build insertion order and the second build an iteration order chosen nondeterministically: for every map '
               'that pyxis iterates (the type registry behind unresolved()/resolved(), the module map behind values_mut()) every '
               'permutation of its user-defined keys is a separate explored branch.  Descriptions: dependency graphs of 2..3 types in '
               'two modules with rotated definition / module order (t_order_graph), and types whose generated vftable structs are '
               'referenced from impl-function parameters, virtual-function parameters, fields and extern values (t_order_vft).  On '
               'every leaf the solver must refute that the two builds differ (one fails and the other succeeds, or both succeed with '
               'different summaries).  A reported difference is confirmed natively by running the real binary in 40 fresh processes '
               '(fresh SipHash seeds) and observing more than one distinct result.')
ASSUMPTIONS = ['one permutation per map key-set per path (an order that changes between fix-point rounds of one build is not modelled)',
               'error texts are not compared (which unresolved type is named first legitimately depends on the order); fail-vs-succeed and '
               'the content of successful builds are',
               'static mutable state: none exists in pyxis (scanned from the MIR dump on every run: no `static mut`, no thread_local in pyxis bodies)',
               'file discovery order and output file bytes (lib.rs::build, write_module) are file-system code outside the claim']


def bounds(tier):
    return {'user types per description': '<= 3 (+ generated vftable types)',
            'orders': 'graph / vft slices: every permutation of the user keys of every iterated map, chosen independently per key set (8 representative orders beyond 4 keys); '
                      'scope / vft-import slices: one total order per run that every iteration follows — all 24 relative orders of the first 4 user keys met, later keys behind them',
            'pointer_size': [4, 8], 'outside': 'the statement\'s 6 types; orders changing between rounds; byte-level output'}


def order_hook(I, m):
    """iteration order of a hash map/set: first build = insertion order; second build = a chosen permutation of the
    user keys (predefined scalar types keep their place, they never influence resolution)"""
    entries = list(m.entries)
    if I.epoch < 2 or len(entries) <= 1: return entries
    if any(('state_val' in s or s.endswith('outcome')) for s in I.stack): return entries
    def is_user(e):
        k = canon(e[0])
        return not (isinstance(k, tuple) and len(k) == 3 and isinstance(k[2], tuple) and len(k[2]) == 2 and False)
    keys = [json.dumps(canon(e[0]), default=str) for e in entries]
    PRE = {'void', 'bool', 'u8', 'u16', 'u32', 'u64', 'u128', 'i8', 'i16', 'i32', 'i64', 'i128', 'f32', 'f64'}
    def predefined(e):
        k = canon(e[0])
        try:
            segs = k[2]     # ('ItemPath', None, ('v', (seg...), ...))
            names = [s[2] for s in segs[1:]]
            return len(names) == 1 and names[0] in PRE
        except Exception:
            return False
    user = [i for i, e in enumerate(entries) if not predefined(e)]
    if len(user) <= 1: return entries
    if getattr(I, 'order_mode', 'independent') == 'global':
        # one total order of all user keys per run, extended as new keys appear: every iteration in the second build follows it.
        # The first 4 keys met may be inserted anywhere (all 24 relative orders), later ones go to the back.
        rank = I.order_choice.setdefault('rank', [])
        for i in sorted(user, key=lambda i: keys[i]):
            if keys[i] in rank: continue
            if len(rank) < 4:
                pos = I.choose(len(rank) + 1, 'order')
            else:
                pos = len(rank)
            rank.insert(pos, keys[i])
        perm = sorted(user, key=lambda i: rank.index(keys[i]))
        return [e for i, e in enumerate(entries) if i not in user] + [entries[i] for i in perm]
    ks = tuple(sorted(keys[i] for i in user))
    idx = I.order_choice.get(ks)
    if idx is None:
        n = 1
        for j in range(2, len(user) + 1): n *= j
        if n > 24: n = 8           # more than 4 user keys: 8 representative orders instead of all n!
        idx = I.choose(n, 'order')
        I.order_choice[ks] = idx
    base = sorted(user, key=lambda i: keys[i])
    if len(user) <= 4:
        perm = list(itertools.permutations(base))[idx]
    else:
        k = len(base)
        reps = [base, base[::-1]] + [base[r:] + base[:r] for r in (1, 2, k - 1)] + [base[::-1][r:] + base[::-1][:r] for r in (1, 2, k - 1)]
        perm = reps[idx]
    out = [e for i, e in enumerate(entries) if i not in user] + [entries[i] for i in perm]
    return out


def order_hook_global(I, m):
    I.order_mode = 'global'
    return order_hook(I, m)


def graph_assume(a, k, ps, nfmax, kinds, orders):
    return c10.assume(a, k, ps, nfmax, kinds, orders)


def vft_assume(a, ps):
    return [a[0] == ps, z3.ULE(a[1], 4), z3.ULE(a[2], 4), z3.ULE(a[3], 4), z3.ULE(a[4], 4), z3.ULE(a[5], 1), z3.ULE(a[6], 1)]


def slices(tier, rng):
    """thorough = the quick slices for both pointer sizes, wider graphs and the full signature / field / extern-value product of t_order_vft at
    pointer size 4; every slice is sized to finish (an earlier, wider thorough tier ran past 100 minutes)"""
    out = []
    quick = tier == 'quick'
    def g(name, k, ps, nfmax, kinds, orders, hook=order_hook):
        return Slice(name, 't_order_graph', 3 + 7 * k, lambda a: graph_assume(a, k, ps, nfmax, kinds, orders),
                     opts={'map_order': hook, 'must_reach': ['ok/ok']}, ctx={'t': 'graph'})
    out.append(g('graph-k2-ps4', 2, 4, 1, [0, 1, 2, 4, 5], [0]))
    if not quick:
        out.append(g('graph-k2-nf2-ps4', 2, 4, 2, [1, 2], [0], hook=order_hook_global))
        out.append(g('graph-k3-ps4', 3, 4, 1, [1, 2], [0], hook=order_hook_global))
        out.append(g('graph-k2-ps8', 2, 8, 1, [6, 1, 2, 5], [0]))
    from . import c11
    use_kinds = (0, 1, 2, 3, 4, 8)
    out.append(Slice('scope-ps4', 't_order_scope', 11, lambda a: c11.assume(a, 4, 2) + [a[1] == 0, a[5] == 0, z3.ULE(a[3], 1)] +
                     [z3.Or(*[a[7 + i] == k for k in (use_kinds if (quick or i == 1) else use_kinds + (5, 6, 7))]) for i in range(2)],
                     opts={'map_order': order_hook_global, 'must_reach': ['ok/ok']}, ctx={'t': 'scope'}))
    # the same modules added in every order (no hash-order choice involved: the add order itself is the varied dimension)
    out.append(Slice('module-add-order-ps4', 't_order_modules', 4, lambda a: [a[0] == 4, z3.ULE(a[1], 3), z3.ULE(a[2], 1), z3.ULE(a[3], 5)],
                     opts={'must_reach': ['ok/ok']}, ctx={'t': 'modules'}))
    for ps in ((4,) if quick else (4, 8)):
        full = (not quick) and ps == 4
        out.append(Slice('vft-ps%d' % ps, 't_order_vft', 7, lambda a, ps=ps, full=full: vft_assume(a, ps) + [a[5] == 0, a[6] == 0] + ([] if full else [a[4] == 0, a[3] == 0]),
                         opts={'map_order': order_hook, 'must_reach': ['ok/ok']}, ctx={'t': 'vft'}))
        # an imported module declares a type named like a generated vftable type
        out.append(Slice('vft-import-ps%d' % ps, 't_order_vft', 7,
                         lambda a, ps=ps, full=full: vft_assume(a, ps) + [a[5] == 1, a[6] == 0, z3.Or(a[4] == 0, a[4] == 2), z3.Or(a[3] == 0, a[3] == 2)] +
                                                     ([z3.ULE(a[1], 2), z3.ULE(a[2], 2)] if full else [z3.ULE(a[1], 2), a[2] == 0]),
                         opts={'map_order': order_hook_global, 'must_reach': ['ok/ok']}, ctx={'t': 'vft'}))
        # the module declares a type named like a generated vftable type: rejected in every order
        out.append(Slice('vft-collision-ps%d' % ps, 't_order_vft', 7, lambda a, ps=ps: vft_assume(a, ps) + [a[5] == 0, a[6] == 1, z3.ULE(a[1], 1), z3.ULE(a[2], 1), a[3] == 0, z3.Or(a[4] == 0, a[4] == 3)],
                         opts={'map_order': order_hook, 'must_reach': ['err/err']}, ctx={'t': 'vft'}))
    return out


def build_differs(o1, o2):
    if is_err(o1) and is_err(o2): return False
    if is_ok(o1) != is_ok(o2): return True
    return differs(o1, o2)


def build_differs_concrete(o1, o2):
    e1 = isinstance(o1, list) and o1 and o1[0] == 'err'; e2 = isinstance(o2, list) and o2 and o2[0] == 'err'
    if e1 and e2: return False
    return e1 != e2 or o1 != o2


def leaf_queries(I, a, leaf, py, sl):
    if leaf.kind != 'ret': return [Query('no-%s' % leaf.kind, z3.BoolVal(True))]
    return [Query('both-orders-give-the-same-result', as_z3(build_differs(py[0], py[1])))]


def same_outcome(native, expected):
    """the native binary builds twice with whatever orders its hash seeds give: each of its two results must be one of
    the results the interpreter obtained for some order"""
    from ..check import same_outcome as so
    if isinstance(expected, dict): return so(native, expected)
    if not (isinstance(native, list) and len(native) == 2 and isinstance(expected, list) and len(expected) == 2): return False
    return all(any(so(n, e) for e in expected) for n in native)


def native_confirm(S, sl, args, expected, qname):
    """a difference between iteration orders is real if fresh native processes disagree with each other"""
    if sl.template == 't_order_modules':
        # the two builds differ in the order of the add_module calls, which the native run reproduces exactly: one run decides
        r = S.replay_once(sl.template, args, timeout=20)
        okp = isinstance(r, list) and len(r) == 2 and pair_same_outcome(r, expected) and build_differs_concrete(r[0], r[1])
        return okp, r
    seen = []
    for _ in range(40):
        r = S.replay_once(sl.template, args, timeout=20)
        key = json.dumps([x[0] if isinstance(x, list) and x and x[0] == 'err' else x for x in r] if isinstance(r, list) else r, sort_keys=True)
        if key not in seen: seen.append(key)
        if len(seen) > 1: break
    return len(seen) > 1, {'distinct_native_results': len(seen), 'examples': [json.loads(s) for s in seen[:2]]}


def region_env(a, sl):
    if sl.ctx['t'] == 'vft':
        gen = lambda x: z3.Or(x == 2, x == 3)
        return {'signature_names_generated_vftable': z3.Or(gen(a[1]), gen(a[2])),
                'field_names_generated_vftable_that_an_import_declares': z3.And(a[5] != 0, a[4] == 2)}
    return {'signature_names_generated_vftable': z3.BoolVal(False), 'field_names_generated_vftable_that_an_import_declares': z3.BoolVal(False)}


def describe(template, args):
    a = [int(x) for x in args]
    if template == 't_order_scope':
        from . import c11
        return c11.describe('t_scope', a) + '\n(built twice; second build with permuted hash iteration orders)'
    if template == 't_order_modules':
        P = {0: '(empty)', 1: 'pub type q { pub x: *const u8 }', 2: '#[size(4), align(4)] extern type q;', 3: 'pub type S { pub x: *const u8 }'}
        O = ['p, p::q, r', 'p, r, p::q', 'p::q, p, r', 'p::q, r, p', 'r, p, p::q', 'r, p::q, p']
        return ('// pointer size %d\nmodule p: %s\nmodule p::q: %spub type Own { pub o: *const u8 } pub type R { pub f: *const %s }\n'
                'module r: pub type W { pub w: *const u8 }\n// first build adds the modules in the order p, p::q, r; the second in the order %s') % (
                    a[0], P.get(a[1], '?'), 'use r; ' if a[2] else '', 'W' if a[2] else 'Own', O[a[3]] if a[3] < 6 else '?')
    if template == 't_order_graph': return c10.describe('t_graph', a) + '\n(built twice; second build with a permuted hash-map iteration order)'
    K = {0: 'u32', 1: '*const A', 2: '*const AVftable', 3: '*const CVftable', 4: '*const BVftable'}
    return ('// pointer size %d (built twice with different hash-map iteration orders)\n'
            'pub type A { vftable { pub fn f(&self); }, pub x: *const u8 }\npub type B { pub y: *const u8%s }\n'
            'impl B { #[address(16)] pub fn g(&self, p: %s); }\npub type C { vftable { pub fn h(&self, q: %s); }, pub z: *const u8 }\n'
            '#[address(32)] pub extern ev: %s;%s') % (a[0], ', pub w: %s' % K.get(a[4], '?') if a[4] else '', K.get(a[1], '?'), K.get(a[2], '?'), K.get(a[3], '?'),
                                                     ('\nuse n;   // module n: pub type AVftable { pub n0: *const u8, pub n1: *const u8 }' if len(a) > 5 and a[5] else '') +
                                                     ('\npub type CVftable { pub u: *const u8 }' if len(a) > 6 and a[6] else ''))
