"""C04 — virtual functions occupy the declared vftable slots (slot arithmetic, semantic stage)."""
import z3
from ..check import Slice, Query
from ..summary import Item, items, is_ok, bv, name_eq
from ..values import SymStr

ID = 'C04'
# fixed witnesses: private virtual functions behind gap placeholders, explicit table size, pointer arguments, return values
ENGINE_B = [{'template': 't_vft', 'kinds': ['dispatch_', 'layout_'], 'max_quick': 12, 'max_thorough': 64,
            'fixed': [[8, 2, 0, 0, 0, 0, 1, 0, 0, 0, 0, 0, 0, 1, 1, 3, 1, 0, 0, 0, 0, 0, 0, 0],
                      [8, 3, 1, 7, 1, 1, 2, 1, 0, 0, 0, 1, 0, 0, 0, 0, 1, 1, 2, 0, 0, 0, 0, 1, 1, 5, 2, 0, 0, 0, 0, 1, 0, 0],
                      [8, 2, 0, 0, 1, 2, 1, 1, 2, 0, 0, 1, 0, 0, 0, 0, 2, 1, 0, 0, 0, 0, 0, 0]]},
            # one virtual function with 0..4 parameters of mixed width, incl. parameters named like the wrapper's own locals (`this`, `f`)
            {'template': 't_vftargs', 'kinds': ['dispatch_'], 'max_quick': 8, 'max_thorough': 32,
             'fixed': [[8, 1, 2, 2, 0, 0, 0, 1, 1, 3, 0], [8, 2, 3, 0, 1, 3, 0, 2, 0, 0, 0], [8, 1, 4, 1, 0, 0, 3, 3, 1, 1, 0], [8, 1, 1, 0, 0, 0, 0, 2, 0, 0, 0],
                       [8, 1, 2, 0, 1, 0, 0, 0, 0, 0, 1], [8, 2, 1, 3, 0, 0, 0, 0, 0, 0, 1]]}]
FN = ['g0', 'g1', 'g2', 'g3']
EXPLANATION = ('Template t_vft (type T with a vftable block of m functions, each with an optional symbolic #[index], and an optional '
               'symbolic vftable #[size]) is executed symbolically through convert_grammar_functions_to_semantic_functions, '
               'vftable::build and build_type.  Accepted leaves: function k must sit in slot "index if given, else predecessor + 1", '
               'every other slot must be a private thiscall placeholder _vfunc_<slot>, the table length must be the declared size '
               '(or last slot + 1), the generated TVftable item must list the same slots in order with size = slots * pointer '
               'width, and T must start with one private pointer-sized `vftable` field.  Rejected leaves: the solver must refute '
               'that indices were increasing and the size large enough.  Accepting a contradictory index or size is a violation.')
ASSUMPTIONS = ['the run-time half of the property (the emitted wrapper loads the vftable pointer and calls the slot) is not decided by this check; '
               'it needs execution of emitted code (see DESIGN.md, Engine B)']


def bounds(tier):
    return {'functions': '<= 2 with free signatures; 3 and 4 with a fixed signature and free slots', 'index': '< 6', 'vftable size': '< 8', 'pointer_size': [4, 8],
            'outside': 'larger tables; inherited tables (C06); run-time dispatch'}


def assume(a, m, ps):
    A = [a[0] == ps, a[1] == m, z3.ULE(a[2], 1), z3.ULT(a[3], 8)]
    for k in range(m):
        b = 4 + 10 * k
        f = a[b + 2:b + 10]
        A += [z3.ULE(a[b], 1), z3.ULT(a[b + 1], 6)]
        if m >= 3:
            # three functions: the signature dimension is fixed (it is explored with one and two functions), slots stay symbolic
            A += [f[0] == 1, f[1] == 0, f[2] == 0, f[3] == 0, f[4] == 0, f[5] == 0, f[6] == 0, f[7] == 1]
        else:
            A += [z3.Or(f[0] == 1, f[0] == 2), z3.ULE(f[1], 1), z3.Or(f[2] == 0, f[2] == 2), f[3] == 0, f[4] == 0, z3.ULE(f[5], 1),
                  f[6] == 0, f[7] == 1]
    return A


def assume_attr_order(a, ps):
    """one function carrying both #[index] and a calling convention, in both attribute orders (the template writes the
    convention first for `&mut self` functions)"""
    A = assume(a, 1, ps)
    f = a[4 + 2:4 + 10]
    A = [c for c in A if 'a12' not in str(c)]      # drop `f[6] == 0` (a12 is the convention code of function 0)
    A += [z3.Or(f[6] == 0, f[6] == 3, f[6] == 1)]
    return A


def vftargs_assume(a, ps, tier):
    kinds = (0, 3) if tier == 'quick' else (0, 1, 2, 3, 5)
    A = [a[0] == ps, z3.UGE(a[1], 1), z3.ULE(a[1], 2), z3.ULE(a[2], 4), z3.ULE(a[7], 3), z3.ULE(a[8], 1), z3.ULT(a[9], 6 if tier != 'quick' else 3),
         z3.Implies(a[8] == 0, a[9] == 0), z3.ULE(a[10], 1)]
    if tier == 'quick': A.append(z3.Implies(a[10] != 0, z3.And(a[7] == 0, a[8] == 0)))      # packed owner: default names, no index
    for j in range(4):
        A.append(z3.Or(*[a[3 + j] == k for k in kinds]))
        A.append(z3.Implies(z3.ULE(a[2], j), a[3 + j] == 0))
    A.append(z3.Implies(a[2] == 0, a[7] == 0))
    return A


def vftargs_queries(a, leaf, py):
    from .c05 import ARGT
    if not is_ok(py): return [Query('one-virtual-function-description-accepted', z3.BoolVal(True))]
    its = items(py)
    T = Item(its['m::T'])
    if T.vftable is None: return [Query('virtual-function-keeps-slot-receiver-and-parameters', z3.BoolVal(True))]
    bad = []
    slot = z3.If(a[8] != 0, a[9], z3.BitVecVal(0, 64))
    fns = T.vftable['functions']
    bad.append(slot + 1 != len(fns))
    for i, f in enumerate(fns):
        if f.name == 'v':
            bad.append(slot != i)
            args = list(f.args)
            recv = args[0] if args and isinstance(args[0], str) else None
            rest = args[1:] if recv else args
            bad.append(z3.And(a[1] == 1, z3.BoolVal(recv != '&self')))
            bad.append(z3.And(a[1] == 2, z3.BoolVal(recv != '&mut self')))
            bad.append(a[2] != len(rest))
            for j, arg in enumerate(rest):
                for kind in range(4):
                    want = 'this' if (kind == 1 and j == 0) else 'f' if ((kind == 2 and j == 0) or (kind == 3 and j == len(rest) - 1)) else 'a%d' % j
                    if arg[0] != want: bad.append(a[7] == kind)
                for k, ty in ARGT.items():
                    if arg[1] != ty: bad.append(a[3 + j] == k)
            if f.ret != ['raw', 'u32'] or f.body[0] != 'vftable' or f.body[1] != 'v' or f.vis != 'pub': bad.append(z3.BoolVal(True))
        else:
            if f.name != '_vfunc_%d' % i or f.vis != 'priv': bad.append(z3.BoolVal(True))
            bad.append(slot == i)
    if not any(f.name == 'v' for f in fns): bad.append(z3.BoolVal(True))
    return [Query('virtual-function-keeps-slot-receiver-and-parameters', z3.Or(*bad))]


def slices(tier, rng):
    out = []
    for ps in (4, 8):
        out.append(Slice('args-ps%d' % ps, 't_vftargs', 11, lambda a, ps=ps, tier=tier: vftargs_assume(a, ps, tier), opts={'must_reach': ['ok']}, ctx={'m': 1}))
    for ps in (4, 8):
        out.append(Slice('m1-attr-order-ps%d' % ps, 't_vft', 14, lambda a, ps=ps: assume_attr_order(a, ps), opts={'must_reach': ['ok']}, ctx={'m': 1}))
    mmax = 4
    for ps in (4, 8):
        for m in range(1, mmax + 1):
            if tier == 'quick' and ps == 8 and m > 1: continue
            out.append(Slice('m%d-ps%d' % (m, ps), 't_vft', 4 + 10 * m, lambda a, m=m, ps=ps: assume(a, m, ps),
                             opts={'must_reach': ['ok']}, ctx={'m': m}))
    return out


def spec(a, m):
    slots = []; cons = []
    prev_next = z3.BitVecVal(0, 64)
    for k in range(m):
        b = 4 + 10 * k
        slot = z3.If(a[b] != 0, a[b + 1], prev_next)
        cons.append(z3.Implies(a[b] != 0, z3.UGE(a[b + 1], prev_next)))
        slots.append(slot); prev_next = slot + 1
    total = prev_next
    size_ok = z3.Implies(a[2] != 0, z3.UGE(a[3], total))
    length = z3.If(a[2] != 0, a[3], total)
    return slots, z3.And(*(cons + [size_ok])), length


def check_table(fns, a, m, slots, length, bad):
    """fns: list of summary.Function (vftable functions in slot order)"""
    bad.append(length != len(fns))
    for i, fn in enumerate(fns):
        is_decl = []
        for k in range(m):
            is_decl.append(slots[k] == i)
            # declared function k must be exactly at its slot
            if fn.name != FN[k]: bad.append(slots[k] == i)
        placeholder = z3.Not(z3.Or(*is_decl)) if is_decl else z3.BoolVal(True)
        ph_ok = (fn.name == '_vfunc_%d' % i and fn.vis == 'priv' and fn.cc == 'thiscall' and fn.args == ['&mut self'] and fn.ret is None
                 and fn.body == ['vftable', '_vfunc_%d' % i])
        if not ph_ok: bad.append(placeholder)
        if fn.name in FN:
            k = FN.index(fn.name)
            if k >= m: bad.append(z3.BoolVal(True))
            else:
                bad.append(slots[k] != i)
                if fn.body != ['vftable', fn.name]: bad.append(z3.BoolVal(True))


def leaf_queries(I, a, leaf, py, sl):
    m = sl.ctx['m']
    if leaf.kind != 'ret': return [Query('no-%s' % leaf.kind, z3.BoolVal(True))]
    if sl.template == 't_vftargs': return vftargs_queries(a, leaf, py)
    slots, consistent, length = spec(a, m)
    if not is_ok(py): return [Query('rejected-implies-contradictory', consistent)]
    its = items(py)
    bad = [z3.Not(consistent)]
    T = Item(its['m::T'])
    if T.vftable is None or 'm::TVftable' not in its:
        bad.append(z3.BoolVal(True))
    else:
        check_table(T.vftable['functions'], a, m, slots, length, bad)
        if T.vftable['base_field'] is not None or T.vftable['type'] != ['const*', ['raw', 'm::TVftable']]: bad.append(z3.BoolVal(True))
        # the vftable pointer is the first field, private, pointer-sized
        r0 = T.regions[0] if T.regions else None
        if r0 is None or r0.name != 'vftable' or r0.vis != 'priv' or r0.type != ['const*', ['raw', 'm::TVftable']]: bad.append(z3.BoolVal(True))
        else: bad.append(bv(r0.size) != a[0])
        VT = Item(its['m::TVftable'])
        names = [f.name for f in T.vftable['functions']]
        if [r.name for r in VT.regions] != names: bad.append(z3.BoolVal(True))
        bad.append(bv(VT.size) != a[0] * len(names)); bad.append(bv(VT.align) != a[0])
        for r, f in zip(VT.regions, T.vftable['functions']):
            if r.type[0] != 'fn' or r.type[1] != f.cc or r.vis != f.vis: bad.append(z3.BoolVal(True))
            bad.append(bv(r.size) != a[0])
            # slot signature: `this` pointer of the right mutability, then the declared parameters, then the return type
            want = []
            for arg in f.args:
                if arg == '&self': want.append(['this', ['const*', ['raw', 'm::T']]])
                elif arg == '&mut self': want.append(['this', ['mut*', ['raw', 'm::T']]])
                else: want.append(arg)
            if r.type[2] != want or r.type[3] != f.ret: bad.append(z3.BoolVal(True))
    return [Query('accepted-table-has-declared-slots', z3.Or(*bad))]


def region_env(a, sl):
    if sl.template == 't_vftargs': return {'consistent': z3.BoolVal(True)}
    slots, consistent, length = spec(a, sl.ctx['m'])
    return {'consistent': consistent}


def describe(template, args):
    a = [int(x) for x in args]
    if template == 't_vftargs':
        from .c05 import ARGS_TXT
        n_ = min(a[2], 4); kind = a[7]
        nm = lambda j: 'this' if (kind == 1 and j == 0) else 'f' if ((kind == 2 and j == 0) or (kind == 3 and j == n_ - 1)) else 'a%d' % j
        ps_ = ['&mut self' if a[1] == 2 else '&self'] + ['%s: %s' % (nm(j), ARGS_TXT.get(a[3 + j], '?')) for j in range(n_)]
        return '// pointer size %d\n%spub type T {\n    vftable { %spub fn v(%s) -> u32; },\n    pub x: *const u8,\n}' % (
            a[0], '#[packed] ' if len(a) > 10 and a[10] else '', '#[index(%d)] ' % a[9] if a[8] else '', ', '.join(ps_))
    def s64(v):
        v &= (1 << 64) - 1
        return v - (1 << 64) if v >> 63 else v
    out = ['// pointer size %d' % a[0], 'pub type T {']
    out.append('    %svftable {' % ('#[size(%d)] ' % s64(a[3]) if a[2] else ''))
    for k in range(min(a[1], 4)):
        b = 4 + 10 * k
        if b + 10 > len(a): break
        f = a[b + 2:b + 10]
        params = ['&self' if f[0] == 1 else '&mut self' if f[0] == 2 else ''] + ['a%d: %s' % (j, {0: 'u32', 2: '*const T'}.get(f[2 + j], '?')) for j in range(min(f[1], 3))]
        out.append('        %spub fn %s(%s)%s;' % ('#[index(%d)] ' % s64(a[b + 1]) if a[b] else '', FN[k], ', '.join(p for p in params if p), ' -> u32' if f[5] == 1 else ''))
    out.append('    },'); out.append('    pub x: *const u8,'); out.append('}')
    return '\n'.join(out)
