"""C01 — declared field addresses are the real field offsets in the emitted struct."""
import z3
from ..check import Slice, Query
from ..layoutspec import Layout, describe as describe_layout, NHEAD, STRIDE, FIELD_NAMES
from ..summary import Item, items, is_ok, bv
from .c03 import base_assume

ID = 'C01'
ENGINE_B = [{'template': 't_layout', 'kinds': ['layout_'], 'max_quick': 14, 'max_thorough': 64,
             # a single over-aligned field, a packed type, explicit addresses with gaps
             # ... and byte-array fields directly after generated padding
             'fixed': [[8, 1, 0, 0, 1, 16, 0, 3, 2, 4, 0, 0, 0, 0, 1], [8, 2, 1, 24, 0, 0, 1, 0, 0, 0, 1, 3, 0, 0, 1, 0, 3, 0, 1, 9, 0, 0, 1],
                       [8, 1, 1, 16, 0, 0, 0, 3, 0, 8, 1, 8, 0, 0, 1], [8, 2, 1, 24, 0, 0, 0, 4, 0, 4, 0, 0, 0, 0, 0, 3, 0, 12, 1, 8, 0, 0, 1],
                       # packed types whose later fields have a niche (bool): the compiler must keep the declared order
                       [8, 3, 0, 0, 0, 0, 1, 0, 2, 0, 0, 0, 0, 0, 1, 0, 10, 0, 0, 0, 0, 0, 1, 0, 1, 0, 0, 0, 0, 0, 1],
                       [8, 2, 0, 0, 0, 0, 1, 0, 0, 0, 0, 0, 0, 0, 1, 0, 10, 0, 0, 0, 0, 0, 1]]},
            # base sub-objects and vftable pointers (fixed witness programs from the inheritance / equivalence templates)
            {'template': 't_equiv', 'kinds': ['layout_'], 'max_quick': 4, 'max_thorough': 4,
             'fixed': [[8, 8, 16, 8, 8, 0, 0, 0, 1, 0, 0, 0, 0, 0, 1, 0], [8, 8, 16, 8, 16, 0, 0, 0, 0, 1, 0, 0, 1, 0, 1, 0], [8, 8, 16, 8, 0, 0, 1, 0, 0, 0, 0, 0, 0, 0, 0, 0], [8, 3, 8, 4, 5, 0, 0, 0, 1, 0, 0, 0, 0, 0, 0, 1]]},
            {'template': 't_inherit', 'kinds': ['layout_'], 'max_quick': 4, 'max_thorough': 4,
             'fixed': [[8, 1, 1, 1, 1, 0, 1, 0, 0, 0, 0, 0, 1, 0, 0, 0, 1], [8, 0, 1, 1, 2, 0, 1, 0, 0, 0, 0, 0, 1, 0, 0, 0, 0]]}]
EXPLANATION = ('t_layout run symbolically; on every accepted leaf the region list pyxis produced is laid out with an SMT model of '
               'repr(C) (each field at align_up(previous end, field alignment); struct alignment = declared; packed => 1) and '
               'the solver must refute: a named field missing from the struct, a named field at an offset different from its '
               'declared address / its predecessor\'s end, the compiler inserting padding anywhere (offset not a multiple of the '
               'region\'s alignment, size not the sum of the regions or not a multiple of the alignment), a region whose size/'
               'alignment differs from the reference table (scalars, pointers = pointer width, arrays = elem*count).')
ASSUMPTIONS = ['rustc lays out #[repr(C)] structs by the documented C rule; scalar alignments are those of the x86/x86_64 '
               'windows-msvc targets (u64/f64: 8, u128: 16)',
               'the token-level emission of the struct (backends/rust.rs) is not part of this check']


def bounds(tier):
    return {'fields': '<= 2 (quick), <= 3 (thorough)', 'numeric': '< 2^10 (quick) / 2^12', 'pointer_size': [4, 8],
            'outside': 'vftable pointer / base sub-objects (covered by C06), nested user types (C02), token emission'}


def slices(tier, rng):
    out = []
    vmax = 1 << (10 if tier == 'quick' else 12)
    def mk(name, n, ps, **kw):
        return Slice(name, 't_layout', NHEAD + STRIDE * n, lambda a, n=n, ps=ps, kw=kw: base_assume(a, n, ps, vmax, **kw),
                     opts={'summarize': ['gcd'], 'must_reach': ['ok']}, ctx={'n': n})
    for ps in (4, 8):
        out.append(mk('n1-ps%d' % ps, 1, ps, kinds=[0, 1, 2, 3, 4, 5]))
        out.append(mk('n1-zero-ps%d' % ps, 1, ps, kinds=[3, 4, 5], min1=False, named=1))
        out.append(mk('n1-builtin-ps%d' % ps, 1, ps, kinds=[0, 3], elem=list(range(13)), named=1, packed=False))
        out.append(mk('n2-ps%d' % ps, 2, ps, kinds=[0, 1, 3, 4], named=1, packed=False))
        out.append(mk('n2-packed-ps%d' % ps, 2, ps, kinds=[0, 1, 3], named=1, packed=True))
        if tier != 'quick':
            out.append(mk('n2-unnamed-ps%d' % ps, 2, ps, kinds=[0, 4], packed=False))
            out.append(mk('n2-zero-ps%d' % ps, 2, ps, kinds=[0, 3, 4], min1=False, named=1, packed=False))
            out.append(mk('n3-ps%d' % ps, 3, ps, kinds=[0, 1, 4], named=1, packed=False))
    return out


def leaf_queries(I, a, leaf, py, sl):
    if leaf.kind != 'ret' or not is_ok(py): return []
    n = sl.ctx['n']
    L = Layout(a, n, width=64)
    it = Item(items(py)['m::T'])
    bad = []       # disjunction of everything that must not happen
    off = bv(0)
    packed = L.packed
    found = {}
    for r in it.regions:
        rs = bv(r.size); ra = bv(r.align)
        # the compiler places this field at align_up(off, align) (align 1 when packed): must be `off` itself
        bad.append(z3.And(z3.Not(packed), z3.Or(ra == 0, z3.URem(off, ra) != 0)))
        bad.append(z3.And(z3.Not(packed), z3.UGT(ra, bv(it.align))))
        if isinstance(r.name, str) and r.name in FIELD_NAMES:
            i = FIELD_NAMES.index(r.name)
            found[i] = True
            bad.append(off != L.off[i])
            bad.append(rs != L.fsize[i]); bad.append(ra != L.falign[i])
        off = off + rs
    for i in range(n):
        if i not in found:
            bad.append(L.fields[i].named)      # a named declared field must exist in the struct
    bad.append(off != bv(it.size))
    bad.append(z3.And(z3.Not(packed), z3.Or(bv(it.align) == 0, z3.URem(bv(it.size), bv(it.align)) != 0)))
    return [Query('named-fields-at-declared-offsets-without-compiler-padding', z3.Or(*bad))]


def describe(template, args):
    return describe_layout(args)
