"""C12 — every input yields a result: builds never panic or hang (semantic layer)."""
import z3
from ..check import Slice, Query
from ..layoutspec import describe as describe_layout, NHEAD, STRIDE

ID = 'C12'
EXPLANATION = ('Every template is re-run with unbounded numerics (full 64-bit range for every address, size, alignment, count, '
               'index and enum value, negative literals included).  A leaf that ends in a panic (overflow assertion, division or '
               'remainder by zero, unwrap, index, explicit panic!) or exhausts the step budget is a violation candidate; the '
               'solver supplies the concrete description, which is replayed on the native build (catch_unwind / time limit).')
ASSUMPTIONS = ['the parser (syn / proc_macro2) and lib.rs::build / write_module (file system) are outside the claim: the '
               'property is decided for the semantic layer, entered through the public grammar builders',
               'step budget per path: 400000 MIR blocks; a path exceeding it is reported as unbounded and replayed natively with a 20 s limit']


def bounds(tier):
    return {'fields': '<= 2', 'numeric': 'unbounded (64-bit two\'s complement, negatives included)', 'pointer_size': [4, 8],
            'outside': 'parser, file I/O, parse-error positions'}


def layout_assume(a, n, ps, kinds):
    A = [a[0] == ps, a[1] == n]
    for i in (2, 4, 6): A.append(z3.ULE(a[i], 1))
    for i in range(n):
        b = NHEAD + STRIDE * i
        A.append(z3.Or(*[a[b] == k for k in kinds]))
        A.append(a[b + 1] == 13)
        A.append(z3.ULE(a[b + 3], 1)); A.append(a[b + 7] == 1)
    return A


def slices(tier, rng):
    out = []
    for ps in (4, 8):
        for n, kinds in ((1, [0, 1, 3, 4, 5]), (2, [0, 3, 4])):
            if tier == 'quick' and n == 2: continue
            out.append(Slice('layout-n%d-ps%d' % (n, ps), 't_layout', NHEAD + STRIDE * n,
                             lambda a, n=n, ps=ps, kinds=kinds: layout_assume(a, n, ps, kinds),
                             opts={'summarize': [], 'must_reach': ['ok', 'err'], 'time_limit': 900}, ctx={'n': n, 'desc': 'layout'}))
    return out


def leaf_queries(I, a, leaf, py, sl):
    if leaf.kind == 'ret': return []
    return [Query('no-%s:%s' % (leaf.kind, site_key(leaf)), z3.BoolVal(True))]


def site_key(leaf):
    s = leaf.site or ''
    return s.split(':bb')[0].split('::')[-1] if s else 'unknown'


def region_env(a, sl):
    return {}


def describe(template, args):
    if template == 't_layout': return describe_layout(args)
    return str(args)
