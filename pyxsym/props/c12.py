"""C12 — every input yields a result: builds never panic or hang (semantic layer)."""
import z3
from ..check import Slice, Query
from ..layoutspec import describe as describe_layout, NHEAD, STRIDE

ID = 'C12'
EXPLANATION = ('Every template is re-run with unbounded numerics (full 64-bit range for every address, size, alignment, count, '
               'index and enum value, negative literals included).  A leaf that ends in a panic (overflow assertion, division or '
               'remainder by zero, unwrap, index, explicit panic!) or exhausts the step budget is a violation candidate; the '
               'solver supplies the concrete description, which is replayed on the native build (catch_unwind / time limit).')
ASSUMPTIONS = ['the parser (syn / proc_macro2) and lib.rs::build / write_module (file system) are outside the claim: the '
               'property is decided for the semantic layer, entered through the public grammar builders',
               'step budget per path: 400000 MIR blocks; a path exceeding it is reported as unbounded and replayed natively with a 20 s limit']


def bounds(tier):
    return {'fields': '1 with every numeric unconstrained; 2 with the two extern alignments fixed per slice to boundary values (quick: (2^62, 4), (2^32, 2^32); thorough: {1, 8, 2^32, 2^63}^2 and five more pairs) and everything else unconstrained',
            'numeric': 'unbounded (64-bit two\'s complement, negatives included)', 'pointer_size': [4, 8],
            'outside': 'parser, file I/O, parse-error positions'}


ALIGN_DOMAIN = [0, 1, 2, 3, 8, 1 << 31, 1 << 32, 1 << 62, 1 << 63, (1 << 64) - 1]


def layout_assume(a, n, ps, kinds, align_domain=False, named=True):
    A = [a[0] == ps, a[1] == n]
    if align_domain:
        # two fields: the alignments of the extern types range over a list of boundary values (the gcd/lcm loops over two unconstrained
        # 64-bit alignments do not finish in the solver); sizes, counts, addresses, declared size and alignment stay unconstrained
        for i in range(n): A.append(z3.Or(*[a[NHEAD + STRIDE * i + 6] == v for v in ALIGN_DOMAIN]))
    for i in (2, 4, 6): A.append(z3.ULE(a[i], 1))
    for i in range(n):
        b = NHEAD + STRIDE * i
        A.append(z3.Or(*[a[b] == k for k in kinds]))
        A.append(a[b + 1] == 13)
        A.append(z3.ULE(a[b + 3], 1)); A.append(a[b + 7] == 1 if named else z3.ULE(a[b + 7], 1))
    return A


def enum_assume(a, n, ps):
    A = [a[0] == ps, z3.ULE(a[1], 7), a[2] == n] + [z3.ULE(a[i], 1) for i in (3, 4, 5, 6)]
    for i in range(n):
        b = 8 + 3 * i
        A += [z3.ULE(a[b], 1), z3.ULE(a[b + 2], 1)]
    return A


def vft_assume(a, m, ps):
    """indices and table size: any negative number, or a small non-negative one (a huge positive index legitimately asks for a
    huge table: the property allows time and memory proportional to the tables a description asks for)"""
    A = [a[0] == ps, a[1] == m, z3.ULE(a[2], 1), a[3] <= 3]
    for k in range(m):
        b = 4 + 10 * k
        f = a[b + 2:b + 10]
        A += [z3.ULE(a[b], 1), a[b + 1] <= 3]
        A += [z3.Or(f[0] == 1, f[0] == 2), f[1] == 0, f[2] == 0, f[3] == 0, f[4] == 0, f[5] == 0, f[6] == 0, f[7] == 1]
    return A


def impl_assume(a, ps):
    f = a[4:12]
    return [a[0] == ps, z3.ULE(a[1], 1), z3.ULE(a[3], 1), z3.ULE(f[0], 2), z3.ULE(f[1], 1), z3.Or(f[2] == 0, f[2] == 4), f[3] == 0, f[4] == 0,
            z3.Or(f[5] == 0, f[5] == 1, f[5] == 5), z3.Or(f[6] == 0, f[6] == 8), f[7] == 1]


def extern_assume(a, ps):
    return [a[0] == ps, z3.ULE(a[1], 1), z3.ULE(a[3], 1), a[5] == 1, z3.ULE(a[6], 1), z3.Or(a[8] == 0, a[8] == 4, a[8] == 7), a[9] == 1]


def nest_assume(a, ps):
    # the packed / enum-first flags are pinned and the enum has one of two bases: the free product did not finish within its time limit
    A = [a[0] == ps, z3.Or(a[9] == 0, a[9] == 3)] + [z3.ULE(a[i], 1) for i in (4, 6, 12, 15, 17)] + [a[8] == 0, a[19] == 0, z3.Or(a[11] == 2, a[11] == 7)]
    return A


def odd_assume(a, ps):
    return [a[0] == ps] + [z3.ULE(a[i], 1) for i in (1, 2, 3, 8)] + [z3.ULE(a[4], 5), z3.ULE(a[5], 2), z3.ULE(a[6], 2), z3.ULE(a[7], 2)]


def slices(tier, rng):
    out = []
    for ps in ((4,) if tier == 'quick' else (4, 8)):
        out.append(Slice('odd-ps%d' % ps, 't_odd', 9, lambda a, ps=ps: odd_assume(a, ps), opts={'must_reach': ['ok', 'err']}))
    for ps in (4, 8):
        for n, kinds in ((1, [0, 1, 3, 4, 5]),):
            if tier == 'quick' and ps == 8: continue
            out.append(Slice('layout-n%d-ps%d' % (n, ps), 't_layout', NHEAD + STRIDE * n,
                             lambda a, n=n, ps=ps, kinds=kinds: layout_assume(a, n, ps, kinds),
                             opts={'summarize': [], 'must_reach': ['ok', 'err'], 'time_limit': 900}, ctx={'n': n, 'desc': 'layout'}))
    # two fields whose extern types carry concrete boundary alignments (the gcd / lcm loops over two unconstrained 64-bit alignments do
    # not finish in the solver): the products that `lcm` and the size computations form reach 2^64.  Sizes, counts, addresses stay unconstrained.
    # two fields, named or `_`, with free explicit addresses (overlaps, out-of-order addresses, padding before unnamed regions)
    out.append(Slice('layout-n2-unnamed-ps8', 't_layout', NHEAD + STRIDE * 2,
                     lambda a: layout_assume(a, 2, 8, [0], named=False) + [a[NHEAD + 6] == 1, a[NHEAD + STRIDE + 6] == 4, a[6] == 0, a[2] == 0, a[4] == 0] +
                               [z3.ULT(a[NHEAD + STRIDE * i + 5], 1 << 16) for i in range(2)] + [z3.ULT(a[NHEAD + STRIDE * i + 4], 1 << 32) for i in range(2)],
                     opts={'summarize': [], 'must_reach': ['ok', 'err'], 'time_limit': 600}, ctx={'n': 2, 'desc': 'layout'}))
    if tier == 'quick':
        pairs = [(1 << 62, 4, [0]), (1 << 32, 1 << 32, [0])]
    else:
        D = [1, 8, 1 << 32, 1 << 63]
        pairs = [(x, y, [0]) for x in D for y in D] + [(1 << 62, 4, [0]), (4, 1 << 62, [0]), (1 << 31, 1 << 33, [0]), (3, 8, [0]), (0, 8, [0])]
    for i, (al0, al1, kinds) in enumerate(pairs):
        out.append(Slice('layout-n2-align%d-ps8' % i, 't_layout', NHEAD + STRIDE * 2,
                         lambda a, al0=al0, al1=al1, kinds=kinds: layout_assume(a, 2, 8, kinds) + [a[NHEAD + 6] == al0, a[NHEAD + STRIDE + 6] == al1, a[6] == 0] +
                                                                  # explicit addresses stay free only next to small alignments (with huge ones z3 gave `unknown` on the overflow checks)
                                                                  ([a[NHEAD + 3] == 0, a[NHEAD + STRIDE + 3] == 0] if (tier == 'quick' or max(al0, al1) > 8) else []),
                         opts={'summarize': [], 'must_reach': ['err'], 'time_limit': 600}, ctx={'n': 2, 'desc': 'layout'}))
    from . import c02
    out.append(Slice('nest-zero-ps4', 't_nest', 20, lambda a: c02.assume(a, 4, 1 << 3, [0, 3], tier, zero=True) + [a[4] == 0, a[8] == 0, a[6] == 0, a[17] == 0],
                     opts={'summarize': ['gcd'], 'must_reach': ['ok', 'err']}))
    for ps in ((8,) if tier == 'quick' else (4, 8)):
        out.append(Slice('enum-n2-ps%d' % ps, 't_enum', 8 + 3 * 2, lambda a, ps=ps: enum_assume(a, 2, ps), opts={'must_reach': ['ok', 'err']}))
        out.append(Slice('vft-m2-ps%d' % ps, 't_vft', 4 + 10 * 2, lambda a, ps=ps: vft_assume(a, 2, ps),
                         opts={'must_reach': ['ok', 'err'], 'max_steps': 60000}))
        out.append(Slice('impl-ps%d' % ps, 't_impl', 12, lambda a, ps=ps: impl_assume(a, ps), opts={'must_reach': ['ok', 'err']}))
        out.append(Slice('extern-ps%d' % ps, 't_extern', 10, lambda a, ps=ps: extern_assume(a, ps), opts={'must_reach': ['ok', 'err']}))
        # (a slice running t_nest with every numeric unconstrained was part of the thorough tier until it was truncated at its time limit and
        #  left z3 with `unknown` on overflow checks in three thorough runs; nested types keep the bounded-numeric slices of C02 and the
        #  zero-length slice above — stated in DESIGN.md section 4)
    return out


def leaf_queries(I, a, leaf, py, sl):
    if leaf.kind == 'ret': return []
    return [Query('no-%s:%s' % (leaf.kind, site_key(leaf)), z3.BoolVal(True))]


def site_key(leaf):
    s = leaf.site or ''
    return s.split(':bb')[0].split('::')[-1] if s else 'unknown'


def region_env(a, sl):
    return {}


def describe(template, args):
    if template == 't_layout': return describe_layout(args)
    from . import c08, c04, c05, c15, c02
    m = {'t_enum': c08, 't_vft': c04, 't_impl': c05, 't_extern': c15, 't_nest': c02}.get(template)
    if m is not None:
        try: return m.describe(template, args)
        except Exception: pass
    return '%s%s' % (template, [int(x) for x in args])
