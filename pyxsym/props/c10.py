"""C10 — resolution succeeds exactly when names exist and by-value embedding is acyclic."""
import re
import z3
from ..check import Slice, Query
from ..summary import Item, items, is_ok, bv

ID = 'C10'
TN = ['T0', 'T1', 'T2', 'T3', 'T4']
EXPLANATION = ('Template t_graph (k types spread over two mutually importing modules, definitions in rotated order, modules added in '
               'either order; each type has up to two fields whose type is a choice among a scalar, T_j by value, *const T_j, [T_j; 2], '
               '#[base] T_j, an enum, and an undefined name, with the target j a choice as well) is executed symbolically through the '
               'resolution fix-point loop.  The reference predicate (every mentioned name defined, by-value relation acyclic) is '
               'written in SMT over the choice variables with the transitive closure unrolled k times.  Accepted leaves: the solver '
               'must refute "an undefined name or a by-value cycle exists" and that any declared type or field is missing or has a '
               'different type; rejected leaves: it must refute "all names defined and acyclic", and the error\'s list of types must be '
               'exactly the unresolvable ones.  Panics and exhausted step budgets are violations.')
ASSUMPTIONS = ['all scalars are pointer-width so that layout rules never reject a description in this family (C03 covers layout)',
               'hash-map iteration order = insertion order in the interpreter (C09 covers other orders)']


def bounds(tier):
    return {'types': '<= 3 (quick), <= 4 (thorough) with free targets; thorough: 5 in a ring (each type refers to the next one); the statement\'s ~12 is outside the bound', 'fields per type': '<= 2', 'modules': 2,
            'pointer_size': [4, 8]}


def fld(a, i, j):
    b = 3 + 7 * i
    return a[b + 2 + 2 * j], a[b + 3 + 2 * j]


def assume(a, k, ps, nfmax, kinds, orders, nf_exact=None):
    A = [a[0] == ps, a[1] == k, z3.Or(*[a[2] == o for o in orders])]
    for i in range(k):
        b = 3 + 7 * i
        A += [a[b] == (i % 2), z3.ULE(a[b + 1], nfmax), a[b + 6] == 0]
        if nf_exact is not None and nf_exact[i] is not None: A.append(a[b + 1] == nf_exact[i])
        for j in range(2):
            kd, tg = fld(a, i, j)
            A.append(z3.Or(*[kd == x for x in kinds]))
            A.append(z3.ULE(tg, k))       # target == k names a type that does not exist
            # canonical encoding: kinds that have no target use target 0
            A.append(z3.Implies(z3.Or(kd == 0, kd == 5, kd == 6, kd == 7), tg == 0))
        A.append(z3.Implies(z3.ULT(a[b + 1], 2), z3.And(fld(a, i, 1)[0] == kinds[0], fld(a, i, 1)[1] == 0)))
        A.append(z3.Implies(z3.ULT(a[b + 1], 1), z3.And(fld(a, i, 0)[0] == kinds[0], fld(a, i, 0)[1] == 0)))
    return A


def slices(tier, rng):
    out = []
    def mk(name, k, ps, nfmax, kinds, orders):
        return Slice(name, 't_graph', 3 + 7 * k, lambda a: assume(a, k, ps, nfmax, kinds, orders),
                     opts={'must_reach': ['ok', 'err']}, ctx={'k': k, 'ps': ps})
    sc4 = [0, 1, 2, 3, 4, 5, 7, 8]; sc8 = [6, 1, 2, 3, 4, 5, 8]
    out.append(mk('k2-nf2-ps4', 2, 4, 2, [0, 1, 2, 8, 5], [0] if tier == 'quick' else [0, 1]))
    out.append(mk('k3-nf1-ps4', 3, 4, 1, [0, 1, 2, 4, 5, 8] if tier == 'quick' else sc4, [1] if tier == 'quick' else [0, 1]))
    out.append(mk('k2-nf1-ps8', 2, 8, 1, sc8, [0, 1, 2]))
    out.append(mk('k2-nf1-enum-ps4', 2, 4, 1, [0, 3, 7, 5], [0]))
    # the two modules import each other's types by full path (cross-module pointer cycles through type imports)
    out.append(mk('k2-nf1-typeimports-ps4', 2, 4, 1, [0, 1, 2, 3, 5], [4, 5]))
    out.append(mk('k3-nf1-typeimports-ps4', 3, 4, 1, [1, 2, 5], [4]))
    # a ring of five types in two modules: T_i has one field that is a scalar, T_{i+1} by value, a pointer to it, an array of it, or an
    # undefined name — by-value chains of depth 1..5, the by-value 5-cycle, pointer cycles of every length up to 5
    def ring(a, k=5):
        A = assume(a, k, 4, 1, [0, 1, 2, 3, 5], [0], nf_exact=[1] * k)
        for i in range(k):
            kd, tg = fld(a, i, 0)
            A.append(z3.Implies(z3.Or(kd == 1, kd == 2, kd == 3), tg == (i + 1) % k))
        return A
    if tier != 'quick':
        out.append(Slice('ring5-ps4', 't_graph', 3 + 7 * 5, ring, opts={'must_reach': ['ok', 'err']}, ctx={'k': 5, 'ps': 4}))
    if tier != 'quick':
        out.append(mk('k3-nf1-ps8', 3, 8, 1, sc8, [0, 2]))
        # three types with two fields each exceed 10^6 descriptions: T0 and T1 have exactly two by-value / pointer fields, T2 at most one
        out.append(Slice('k3-nf2-ps4', 't_graph', 3 + 7 * 3, lambda a: assume(a, 3, 4, 2, [1, 2], [0], nf_exact=[2, 2, None]) + [z3.ULE(a[3 + 7 * 2 + 1], 1)],
                         opts={'must_reach': ['ok', 'err']}, ctx={'k': 3, 'ps': 4}))
        out.append(mk('k4-nf1-ps4', 4, 4, 1, [0, 1, 2, 5], [0]))
    for ps in ((4,) if tier == 'quick' else (4, 8)):
        out.append(Slice('names-ps%d' % ps, 't_names', 9, lambda a, ps=ps: names_assume(a, ps, tier), opts={'must_reach': ['ok', 'err']}, ctx={'k': 0}))
    return out


def spec(a, k):
    """returns (resolvable[i] as z3 Bool, after the fix-point), per-field helpers"""
    nf = [a[3 + 7 * i + 1] for i in range(k)]
    def present(i, j): return z3.UGT(nf[i], j)
    def undefined(i, j):
        kd, tg = fld(a, i, j)
        return z3.And(present(i, j), z3.Or(kd == 5, z3.And(z3.Or(kd == 1, kd == 2, kd == 3, kd == 4, kd == 8), tg == k)))
    def byvalue(i, j, t):
        kd, tg = fld(a, i, j)
        return z3.And(present(i, j), z3.Or(kd == 1, kd == 3, kd == 4, kd == 8), tg == t)
    res = [z3.BoolVal(False)] * k
    for _ in range(k + 1):
        new = []
        for i in range(k):
            conds = []
            for j in range(2):
                conds.append(z3.Not(undefined(i, j)))
                for t in range(k):
                    conds.append(z3.Implies(byvalue(i, j, t), res[t]))
            new.append(z3.And(*conds))
        res = new
    return res


def type_of_field(kd, tg, mods):
    """expected summary type for concrete (kind, target)"""
    tn = lambda t: '%s::%s' % (mods[t], TN[t])
    if kd == 0: return ['raw', 'u32']
    if kd == 6: return ['raw', 'u64']
    if kd == 7: return ['raw', 'm::E']
    if kd in (1, 4): return ['raw', tn(tg)]
    if kd == 2: return ['const*', ['raw', tn(tg)]]
    if kd == 3: return ['array', ['raw', tn(tg)], 2]
    if kd == 8: return ['array', ['raw', tn(tg)], 0]
    return None


# ---- t_names: a name in every position a description can mention one
NK = {0: ['raw', 'u32'], 1: ['raw', 'm::T1'], 2: ['const*', ['raw', 'm::T1']], 5: ['raw', 'n::X'], 6: ['const*', ['raw', 'n::X']]}
NK_TXT = {0: 'u32', 1: 'T1', 2: '*const T1', 3: 'Nope', 4: '*const Nope', 5: 'X', 6: '*const X', 7: ''}
POS = ['field', 'enum base', 'impl parameter', 'impl return type', 'virtual parameter', 'virtual return type', 'extern value']


def names_assume(a, ps, tier):
    A = [a[0] == ps, z3.ULE(a[1], 1), z3.Or(a[3] == 0, a[3] == 3)]
    for i in (2, 4, 6, 8): A.append(z3.ULE(a[i], 6))
    for i in (5, 7): A.append(z3.ULE(a[i], 7))
    # at most two (thorough: three) positions deviate from u32 at a time — every pair (triple) of positions, every kind; all seven
    # positions freely would be 6 * 10^5 descriptions
    dev = [z3.If(a[i] != 0, z3.BitVecVal(1, 8), z3.BitVecVal(0, 8)) for i in range(2, 9)]
    A.append(z3.ULE(sum(dev[1:], dev[0]), 3 if (tier != 'quick' and ps == 4) else 2))
    return A


def names_resolvable(a, i):
    k = a[i]
    return z3.Or(k == 0, k == 1, k == 2, k == 7, z3.And(a[1] != 0, z3.Or(k == 5, k == 6)))


def names_queries(a, leaf, py):
    all_res = z3.And(*[names_resolvable(a, i) for i in range(2, 9)])
    if not is_ok(py):
        qs = [Query('rejected-implies-some-name-undefined', all_res)]
        msg = py[1][-1] if isinstance(py[1][-1], str) else ''
        mm = re.match(r'type resolution will not terminate, failed on types: \[(.*?)\] \(resolved types', msg)
        if mm:
            listed = set(re.findall(r'"([^"]*)"', mm.group(1)))
            bad = []
            for nm, i in (('m::T0', 2), ('m::E', 3)):
                bad.append(names_resolvable(a, i) if nm in listed else z3.Not(names_resolvable(a, i)))
            if listed - {'m::T0', 'm::E'}: bad.append(z3.BoolVal(True))
            qs.append(Query('error-lists-exactly-the-unresolvable-types', z3.Or(*bad)))
        return qs
    its = items(py)
    bad = [z3.Not(all_res)]
    def expect(got, i, none_ok=False):
        for k, ty in NK.items():
            if got != ty: bad.append(a[i] == k)
        if none_ok: bad.append(z3.And(a[i] == 7, z3.BoolVal(got is not None)))
        if got is None and not none_ok: bad.append(z3.BoolVal(True))
    try:
        T0 = Item(its['m::T0']); V = Item(its['m::V']); E = Item(its['m::E'])
        expect(T0.regions[0].type, 2)
        expect(E.type, 3)
        g = [f for f in T0.functions if f.name == 'g'][0]
        expect([x for x in g.args if not isinstance(x, str)][0][1], 4); expect(g.ret, 5, True)
        v = [f for f in V.vftable['functions'] if f.name == 'v'][0]
        expect([x for x in v.args if not isinstance(x, str)][0][1], 6); expect(v.ret, 7, True)
        evs = [m for m in py[1] if m[1] == 'm'][0][4]
        expect(evs[0][3] if evs and len(evs[0]) > 3 else None, 8)
    except (KeyError, IndexError, TypeError):
        bad.append(z3.BoolVal(True))
    return [Query('accepted-implies-every-name-resolved-to-its-definition', z3.Or(*bad))]


def leaf_queries(I, a, leaf, py, sl):
    if leaf.kind != 'ret': return [Query('no-%s' % leaf.kind, z3.BoolVal(True))]
    if sl.template == 't_names': return names_queries(a, leaf, py)
    k = sl.ctx['k']
    res = spec(a, k)
    all_res = z3.And(*res)
    mods = ['n' if i % 2 else 'm' for i in range(k)]
    if not is_ok(py):
        qs = [Query('rejected-implies-undefined-name-or-cycle', all_res)]
        msg = py[1][-1] if isinstance(py[1][-1], str) else ''
        mm = re.match(r'type resolution will not terminate, failed on types: \[(.*?)\] \(resolved types', msg)
        if mm:
            listed = set(re.findall(r'"([^"]*)"', mm.group(1)))
            bad = []
            for i in range(k):
                nm = '%s::%s' % (mods[i], TN[i])
                bad.append(res[i] if nm in listed else z3.Not(res[i]))
            extra = listed - {'%s::%s' % (mods[i], TN[i]) for i in range(k)}
            if extra: bad.append(z3.BoolVal(True))
            qs.append(Query('error-lists-exactly-the-unresolvable-types', z3.Or(*bad)))
        return qs
    its = items(py)
    bad = [z3.Not(all_res)]
    for i in range(k):
        nm = '%s::%s' % (mods[i], TN[i])
        if nm not in its or not Item(its[nm]).resolved:
            bad.append(z3.BoolVal(True)); continue
        it = Item(its[nm])
        nf = a[3 + 7 * i + 1]
        bad.append(nf != len(it.regions))
        for j, r in enumerate(it.regions):
            if r.name != ['p', 'q'][j]: bad.append(z3.BoolVal(True)); continue
            kd, tg = fld(a, i, j)
            # the region's type must be the declared one: enumerate the (kind, target) pairs it is not
            for kk in (0, 1, 2, 3, 4, 6, 7, 8):
                for tt in range(k):
                    if kk in (0, 6, 7) and tt > 0: continue
                    if type_of_field(kk, tt, mods) != r.type or (r.is_base != (kk == 4)):
                        bad.append(z3.And(kd == kk, tg == tt))
    if 'm::E' not in its: bad.append(z3.BoolVal(True))
    return [Query('accepted-implies-defined-acyclic-and-complete', z3.Or(*bad))]


def region_env(a, sl): return {}


def describe(template, args):
    a = [int(x) for x in args]
    if template == 't_names':
        t = lambda i: NK_TXT.get(a[i], '?')
        return ('// pointer size %d\nmodule n: pub type X { pub y: u32 }\nmodule m:%s\n  pub type T1 { pub x: u32 }\n  pub type T0 { pub f: %s }\n'
                '  impl T0 { #[address(64)] pub fn g(&self, p: %s)%s; }\n  pub type V { vftable { pub fn v(&self, q: %s)%s; } }\n'
                '  pub enum E: %s { A }\n  #[address(128)] pub extern ev: %s;') % (
                    a[0], ' use n;' if a[1] else '', t(2), t(4), (' -> ' + t(5)) if a[5] != 7 else '', t(6), (' -> ' + t(7)) if a[7] != 7 else '', t(3), t(8))
    k = a[1]
    out = ['// pointer size %d, definition rotation / module order %d; modules m and n import each other%s; m also defines enum E: u32' % (
        a[0], a[2], ' — every type by its full path (`use n::T1;` ...), not the module' if a[2] >= 4 else '')]
    for i in range(min(k, 5)):
        b = 3 + 7 * i
        if b + 7 > len(a): break
        fs = []
        for j in range(min(a[b + 1], 2)):
            kd, tg = a[b + 2 + 2 * j], a[b + 3 + 2 * j]
            tn = TN[tg] if tg < 5 else '?'
            ty = {0: 'u32', 1: tn, 2: '*const ' + tn, 3: '[%s; 2]' % tn, 4: tn, 5: 'Nope', 6: 'u64', 7: 'E', 8: '[%s; 0]' % tn}.get(kd, '?')
            fs.append('%spub %s: %s' % ('#[base] ' if kd == 4 else '', 'pq'[j], ty))
        out.append('module %s: pub type %s { %s }' % ('n' if a[b] else 'm', TN[i], ', '.join(fs)))
    return '\n'.join(out)
