"""C11 — type names bind to the definition the scoping rules select."""
import z3
from ..check import Slice, Query
from ..summary import Item, items, is_ok, bv

ID = 'C11'
EXPLANATION = ('Template t_scope: module `a` declares `type R { f: <name> }` where <name> is `S` or the built-in name `u32`; the same name '
               'is declared (as an extern type of a distinct size) in any subset of {a, b, x::y, c}; `a` has up to 2 (thorough 3) use '
               'items drawn from type imports (use b::S, use x::y::S, use c::S), module imports (use b, use x::y, use c) and a '
               'non-existent module, in any order.  The interpreter executes the real resolve_string / resolve_grammar_type / '
               'Module::scope; the reference is the precedence chain of the property written as an if-then-else over the choice '
               'variables (last type import, built-in, own module, imported modules in order).  Accepted leaves: the field\'s '
               'resolved path and the resulting size of R must be the reference provider\'s; rejected leaves: no provider may exist.')
ASSUMPTIONS = ['the printed path in emitted code (crate::<module>::S, c_void for void) is produced by backends/rust.rs and not executed here']


def bounds(tier):
    return {'use items': '<= 2 (quick), <= 3 (thorough)', 'defining modules': 'any subset of a, b, x::y, c', 'module nesting depth': 2}


SIZES = {'a': 8, 'b': 12, 'x::y': 16, 'c': 20}


def assume(a, ps, nmax):
    A = [a[0] == ps, z3.ULE(a[1], 1)] + [z3.ULE(a[i], 1) for i in (2, 4, 5)] + [z3.ULE(a[3], 2), z3.Implies(a[1] != 0, z3.ULE(a[3], 1)), z3.ULE(a[6], nmax)]
    for i in range(4):
        A.append(z3.ULE(a[7 + i], 8))
        A.append(z3.Implies(z3.ULE(a[6], i), a[7 + i] == 0))
    return A


def slices(tier, rng):
    nmax = 2 if tier == 'quick' else 3
    out = [Slice('scope-ps%d' % ps, 't_scope', 11, lambda a, ps=ps: assume(a, ps, nmax), opts={'must_reach': ['ok', 'err']})
           for ps in ((4,) if tier == 'quick' else (4, 8))]
    # three and four type imports (repeated imports, last one wins), every module defines the name
    out.append(Slice('type-imports-ps4', 't_scope', 11,
                     lambda a: assume(a, 4, 4) + [z3.UGE(a[6], 3), a[1] == 0, a[2] == 1, a[3] == 1, a[4] == 1, a[5] == 1] +
                               [z3.Implies(z3.UGT(a[6], i), z3.Or(a[7 + i] == 1, a[7 + i] == 2, a[7 + i] == 5)) for i in range(4)],
                     opts={'must_reach': ['ok']}))
    return out


def spec(a):
    """returns (has_provider, provider_id) with ids 0 builtin, 1 a, 2 b, 3 x::y, 4 c"""
    nm = a[1]
    defs = {1: a[2] != 0, 2: a[3] != 0, 3: a[4] != 0, 4: a[5] != 0}
    V = lambda n: z3.BitVecVal(n, 8)
    NONE = V(255)
    uses = [a[7 + i] for i in range(4)]
    # last type import wins
    timp = NONE
    for u in uses:     # later entries override earlier ones
        for code, mod in ((1, 2), (2, 3), (5, 4)):
            timp = z3.If(z3.And(u == code, defs[mod]), V(mod), timp)
    # module imports, earliest first
    mimp = NONE
    for u in reversed(uses):
        for code, mod in ((3, 2), (4, 3), (6, 4)):
            mimp = z3.If(z3.And(u == code, defs[mod]), V(mod), mimp)
    prov = z3.If(timp != NONE, timp, z3.If(nm == 1, V(0), z3.If(defs[1], V(1), mimp)))
    return prov != NONE, prov


PROV = {0: ('u32', 4), 1: ('a::%s', 8), 2: ('b::%s', 12), 3: ('x::y::%s', 16), 4: ('c::%s', 20)}


def leaf_queries(I, a, leaf, py, sl):
    if leaf.kind != 'ret': return [Query('no-%s' % leaf.kind, z3.BoolVal(True))]
    has, prov = spec(a)
    if not is_ok(py): return [Query('rejected-implies-no-definition-in-scope', has)]
    R = Item(items(py)['a::R'])
    bad = [z3.Not(has)]
    f = R.regions[0] if len(R.regions) == 1 else None
    if f is None or f.name != 'f': bad.append(z3.BoolVal(True))
    else:
        for pid, (pat, size) in PROV.items():
            for nk, nm in ((0, 'S'), (1, 'u32')):
                path = pat % nm if '%s' in pat else pat
                ok = (f.type == ['raw', path])
                cond = z3.And(prov == pid, a[1] == nk)
                if not ok: bad.append(cond)
                bad.append(z3.And(cond, z3.Or(bv(f.size) != size, bv(R.size) != size)))
    # the same name as the type of an extern value and behind a pointer in an impl-function parameter
    from ..summary import modules
    evs = modules(py)['a'][4]
    gfn = [fn for fn in R.functions if fn.name == 'g']
    for pid, (pat, size) in PROV.items():
        for nk, nm in ((0, 'S'), (1, 'u32')):
            path = pat % nm if '%s' in pat else pat
            cond = z3.And(prov == pid, a[1] == nk)
            if len(evs) != 1 or evs[0][3] != ['raw', path]: bad.append(cond)
            if len(gfn) != 1 or gfn[0].args[1:] != [['p', ['const*', ['raw', path]]]]: bad.append(cond)
    return [Query('field-binds-to-the-definition-the-scoping-rules-select', z3.Or(*bad))]


def region_env(a, sl): return {}


def describe(template, args):
    a = [int(x) for x in args]
    nm = 'u32' if a[1] else 'S'
    U = {1: 'use b::%s;' % nm, 2: 'use x::y::%s;' % nm, 3: 'use b;', 4: 'use x::y;', 5: 'use c::%s;' % nm, 6: 'use c;', 7: 'use zz;', 8: 'use b::%s2;' % nm}
    out = ['// pointer size %d; `%s` is an extern type of size 8/12/16/20 in a / b / x::y / c where declared' % (a[0], nm)]
    out.append('module a: ' + ' '.join(U.get(a[7 + i], '') for i in range(min(a[6], 4))) + (' extern type %s;' % nm if a[2] else '') + ' #[align(4)] pub type R { pub f: %s }' % nm)
    for flag, m in ((a[3], 'b'), (a[4], 'x::y'), (a[5], 'c')):
        decl = '(empty)' if not flag else ('#[align(4)] type %s { pub p0: u32, pub p1: u32, pub p2: u32 }   (private)' % nm if flag == 2 else 'extern type %s;' % nm)
        out.append('module %s: %s%s' % (m, decl, ' extern type %s2;' % nm if m == 'b' else ''))
    return '\n'.join(out)
