"""C05 — address-bound wrappers call the declared address with the declared signature (semantic stage)."""
import z3
from ..check import Slice, Query
from ..summary import Item, items, is_ok, bv

ID = 'C05'
# fixed witnesses: addresses around the 32-bit boundary and with zero nibbles in the middle, every receiver kind
ENGINE_B = [{'template': 't_impl', 'kinds': ['addrcall_'], 'max_quick': 14, 'max_thorough': 64, 'abi': True,
            'fixed': [[8, 1, 0x100000000, 0, 1, 2, 0, 2, 0, 1, 0, 1], [8, 1, 0x7FF600123456, 0, 2, 1, 0, 0, 0, 0, 0, 1], [8, 1, 0xFFFFFFFF, 0, 0, 0, 0, 0, 0, 1, 0, 1],
                      [8, 1, 0x101000000, 0, 1, 3, 0, 2, 3, 2, 3, 0], [8, 1, 0x7FFFFFFFFFFFFFF0, 0, 1, 0, 0, 0, 0, 0, 0, 1]]},
            # impl block next to inherited / virtual functions: every declared wrapper is there and calls its own address
            {'template': 't_implname', 'kinds': ['addrcall_'], 'max_quick': 4, 'max_thorough': 16,
             'fixed': [[8, 0x140001000, 0x140002000, 2, 0, 3, 4, 1, 2, 0], [8, 4096, 8192, 2, 0, 0, 3, 1, 0, 0], [8, 4096, 8192, 2, 0, 0, 0, 1, 0, 1]]},
            # longer parameter lists: 4..6 parameters of mixed width in the emitted wrapper
            {'template': 't_impl6', 'kinds': ['addrcall_'], 'max_quick': 14, 'max_thorough': 32, 'abi': True,
             'fixed': [[8, 0x140003000, 1, 6, 0, 1, 2, 3, 1, 0, 2, 0, 0], [8, 0x7FF712345678, 0, 6, 1, 0, 3, 2, 0, 1, 1, 0, 0], [8, 4096, 2, 5, 3, 3, 0, 1, 2, 0, 0, 0, 0],
                       [8, 8192, 1, 4, 1, 1, 0, 0, 0, 0, 4, 0, 0],
                       # parameters named like the identifiers the wrapper itself binds (`this`, `f`)
                       [8, 4096, 1, 4, 2, 0, 1, 0, 0, 0, 1, 1, 0], [8, 4096, 1, 4, 0, 0, 1, 3, 0, 0, 1, 2, 0], [8, 4096, 2, 5, 1, 0, 0, 0, 3, 0, 2, 3, 0],
                       [8, 4096, 0, 4, 3, 0, 0, 0, 0, 0, 0, 2, 0],
                       # packed owner type, &self and &mut self receivers
                       [8, 4096, 1, 4, 0, 1, 0, 3, 0, 0, 1, 0, 1], [8, 8192, 2, 4, 1, 0, 0, 0, 0, 0, 2, 0, 1],
                       # nested pointers with mixed mutability as parameter and as return type
                       [8, 4096, 1, 6, 0, 1, 0, 0, 0, 7, 9, 0, 0], [8, 4096, 2, 6, 1, 0, 0, 0, 0, 8, 8, 0, 0]]}]
CC = ['C', 'cdecl', 'stdcall', 'fastcall', 'thiscall', 'vectorcall', 'system', 'bogus']
ARGT = {0: ['raw', 'u32'], 1: ['raw', 'u64'], 2: ['const*', ['raw', 'm::T']], 3: ['mut*', ['raw', 'u8']], 5: ['raw', 'bool'],
        7: ['mut*', ['const*', ['raw', 'm::T']]], 8: ['const*', ['mut*', ['raw', 'u8']]]}
ARGS_TXT = {0: 'u32', 1: 'u64', 2: '*const T', 3: '*mut u8', 4: 'Nope', 5: 'bool', 6: '*const Nope', 7: '*mut *const T', 8: '*const *mut u8'}
EXPLANATION = ('Template t_impl (type T with one impl function: receiver none/&self/&mut self, 0..3 parameters chosen among integer, '
               'pointer and unresolvable types, optional return type incl. unresolvable, optional #[address(A)] with A over the whole '
               'isize range, optional calling convention, stray #[index]) is executed symbolically through function::build and '
               'type_definition::build.  Accepted leaves: the function recorded for T must have body Address{A} with A the declared '
               'value, the declared receiver and parameters in order with the declared types, and the declared return type.  '
               'Rejected leaves: the solver must refute that the declaration was acceptable; an acceptable declaration is one with '
               'an address that fits usize and only resolvable types.  Template t_implname puts one or two address-bound functions '
               '(g0, and g1 or a second g0) next to names that may already be taken — a virtual function of T, a public or private '
               'function inherited from a #[base] field: accepted leaves must contain every declared function exactly once with its '
               'own address and receiver, and a description is rejected exactly when a declared name is already taken.')
ASSUMPTIONS = ['the emitted wrapper text (backends/rust.rs build_function: transmute of the address, argument order in the call) and '
               'its run-time behaviour are not covered by this check: calling an absolute address cannot be executed by the engines available here',
               'address literal spelling (decimal/hex/underscores) is a parser matter and outside this check']


def bounds(tier):
    return {'parameters': '0..3 with every type / attribute mix; 4..6 with u32 / u64 (thorough: and *mut u8) in every position, a pointer or an unresolvable type in the last', 'address': 'full isize range (symbolic)', 'pointer_size': [4, 8],
            'outside': 'more than 3 parameters; wrapper text and execution'}


def assume(a, ps, sub):
    A = [a[0] == ps, z3.ULE(a[1], 1), z3.ULE(a[3], 1)]
    f = a[4:12]
    A += [z3.ULE(f[0], 2), z3.ULE(f[1], 3), z3.ULE(f[2], 6), z3.ULE(f[3], 6), z3.ULE(f[4], 6), z3.ULE(f[5], 7), z3.ULE(f[6], 8), z3.ULE(f[7], 1)]
    if sub == 'args':       # every mix of integer / pointer / unresolvable parameters
        A += [z3.ULE(f[5], 1), f[6] == 0, f[7] == 1, a[3] == 0]
        A += [z3.Or(f[2 + j] == 0, f[2 + j] == 2, f[2 + j] == 3, f[2 + j] == 4, f[2 + j] == 6) for j in range(3)]
    elif sub == 'ret':      # every return type, incl. unresolvable ones
        A += [z3.ULE(f[1], 1), z3.Or(f[2] == 0, f[2] == 4), f[6] == 0, f[7] == 1, a[3] == 0]
    else:                   # calling convention, visibility, stray index
        A += [f[1] == 0, z3.ULE(f[5], 1)]
    return A


def slices(tier, rng):
    out = []
    for ps in (4, 8):
        for sub in ('args', 'ret', 'attrs'):
            if tier == 'quick' and ps == 8 and sub == 'args': continue
            out.append(Slice('%s-ps%d' % (sub, ps), 't_impl', 12, lambda a, ps=ps, sub=sub: assume(a, ps, sub),
                             opts={'must_reach': ['ok', 'err']}))
        out.append(Slice('six-ps%d' % ps, 't_impl6', 13, lambda a, ps=ps, tier=tier: six_assume(a, ps, tier), opts={'must_reach': ['ok', 'err']}))
        out.append(Slice('names-ps%d' % ps, 't_implname', 10, lambda a, ps=ps: names_assume(a, ps), opts={'must_reach': ['ok', 'err']}))
    return out


# ---- t_impl6: 4..6 parameters
def six_assume(a, ps, tier):
    # quick: u32 / u64 in every position, plus a pointer or an unresolvable type in the last one; thorough: u32 / u64 / *mut u8 everywhere
    kinds = (0, 1) if tier == 'quick' else (0, 1, 3)
    last = (0, 1, 3, 4, 7, 8)          # incl. pointer chains whose levels differ in mutability
    A = [a[0] == ps, a[1] >= 0, z3.ULE(a[2], 2), z3.UGE(a[3], 4), z3.ULE(a[3], 6), z3.Or(z3.ULE(a[10], 2 if tier == 'quick' else 4), a[10] == 8, a[10] == 9), z3.ULE(a[11], 3), z3.ULE(a[12], 1)]
    # both tiers (the free product of names x packed x return types is 6 * 10^5 leaves in the thorough tier):
    A.append(z3.Implies(a[11] != 0, a[10] == 0))     # parameter names vary with no return type only
    A.append(z3.Implies(a[12] != 0, z3.And(a[11] == 0, a[3] == 4)))     # packed owner: four parameters, default names
    for j in range(6):
        A.append(z3.Or(*[a[4 + j] == k for k in (last if j == 5 else kinds)]))
        A.append(z3.Implies(z3.ULE(a[3], j), a[4 + j] == 0))
    return A


def six_queries(a, leaf, py):
    unres = z3.Or(*[z3.And(z3.UGT(a[3], j), a[4 + j] == 4) for j in range(6)])
    acc = z3.Not(unres)
    if not is_ok(py): return [Query('rejected-implies-unresolvable-parameter', acc)]
    it = Item(items(py)['m::T'])
    bad = [unres]
    fns = [x for x in it.functions if x.name == 'g0']
    if len(fns) != 1 or len(it.functions) != 1 or fns[0].body[0] != 'address': return [Query('accepted-wrapper-has-declared-address-and-signature', z3.BoolVal(True))]
    fn = fns[0]
    bad.append(bv(fn.body[1]) != a[1])
    args = list(fn.args)
    recv = args[0] if args and isinstance(args[0], str) else None
    rest = args[1:] if recv else args
    for k, r in {0: None, 1: '&self', 2: '&mut self'}.items():
        if recv != r: bad.append(a[2] == k)
    bad.append(a[3] != len(rest))
    for j, arg in enumerate(rest):
        # the name the description gives the parameter (name_kind a[11])
        for kind in range(4):
            want = 'this' if (kind == 1 and j == 0) else 'f' if ((kind == 2 and j == 0) or (kind == 3 and j == len(rest) - 1)) else 'a%d' % j
            if arg[0] != want: bad.append(a[11] == kind)
        for k, ty in ARGT.items():
            if arg[1] != ty: bad.append(a[4 + j] == k)
    bad.append(z3.And(a[10] == 0, z3.BoolVal(fn.ret is not None)))
    for k, ty in ARGT.items():
        if fn.ret != ty: bad.append(a[10] == k + 1)
    return [Query('accepted-wrapper-has-declared-address-and-signature', z3.Or(*bad))]


# ---- t_implname: declared functions next to names that are already taken
def names_assume(a, ps):
    return [a[0] == ps, z3.UGE(a[3], 1), z3.ULE(a[3], 2), z3.ULE(a[4], 1), z3.ULE(a[5], 3), z3.ULE(a[6], 4), z3.ULE(a[7], 2), z3.ULE(a[8], 2),
            z3.Implies(a[3] == 1, z3.And(a[4] == 0, a[2] == 0, a[8] == 0)), z3.ULE(a[9], 1), z3.Implies(a[9] != 0, a[4] == 0)]


def names_taken(a):
    """(g0 taken before the impl block, g1 taken before the impl block) as z3 conditions: names of T's own virtual functions and of the
    public functions injected from the base"""
    g0 = z3.Or(a[5] == 1, a[6] == 1)
    g1 = z3.Or(a[5] == 2, a[6] == 2)
    return g0, g1


def names_acceptable(a):
    g0, g1 = names_taken(a)
    second = z3.Implies(a[3] == 2, z3.And(a[4] == 0, z3.Not(g1), a[2] >= 0))
    return z3.And(z3.Or(z3.Not(g0), a[9] != 0), a[1] >= 0, second)        # an internal `_g0` clashes with nothing


def names_queries(a, leaf, py):
    acc = names_acceptable(a)
    if not is_ok(py): return [Query('rejected-implies-a-declared-name-is-taken', acc)]
    it = Item(items(py)['m::T'])
    bad = [z3.Not(acc)]
    RECV = {0: None, 1: '&self', 2: '&mut self'}
    def one(name, addr, recv_param, when):
        fns = [x for x in it.functions if x.name == name]
        if len(fns) != 1: return [when]
        fn = fns[0]; out = []
        if fn.body[0] != 'address': return [when]
        out.append(z3.And(when, bv(fn.body[1]) != addr))
        args = list(fn.args)
        recv = args[0] if args and isinstance(args[0], str) else None
        for k, r in RECV.items():
            if recv != r: out.append(z3.And(when, recv_param == k))
        return out
    bad += one('g0', a[1], a[7], a[9] == 0)
    bad += one('_g0', a[1], a[7], a[9] != 0)
    bad += one('g1', a[2], a[8], z3.And(a[3] == 2, a[4] == 0))
    # nothing else next to them but what the base contributes (one forwarder per public base function)
    others = [x for x in it.functions if x.name not in ('g0', '_g0', 'g1') or x.body[0] != 'address']
    n_inj = z3.If(z3.Or(a[6] == 1, a[6] == 2, a[6] == 4), z3.BitVecVal(1, 64), z3.BitVecVal(0, 64))
    bad.append(n_inj != len(others))
    bad.append(z3.And(a[3] == 1, z3.BoolVal(len(it.functions) - len(others) != 1)))
    bad.append(z3.And(a[3] == 2, z3.BoolVal(len(it.functions) - len(others) != 2)))
    return [Query('every-declared-wrapper-present-once-with-its-own-address', z3.Or(*bad))]


def acceptable(a):
    f = a[4:12]
    unres = lambda k: z3.Or(k == 4, k == 6)
    args_ok = z3.And(*[z3.Implies(z3.UGT(f[1], j), z3.Not(unres(f[2 + j]))) for j in range(3)])
    ret_ok = z3.Not(z3.Or(f[5] == 5, f[5] == 7))       # ret code k+1 with k in {4, 6}
    cc_ok = f[6] != 8
    return z3.And(a[1] != 0, a[2] >= 0, a[3] == 0, args_ok, ret_ok, cc_ok)


def expected_cc(f):
    """index into CC of the convention the function must carry"""
    return z3.If(f[6] != 0, f[6] - 1, z3.If(f[0] != 0, z3.BitVecVal(4, 64), z3.BitVecVal(6, 64)))


def leaf_queries(I, a, leaf, py, sl):
    if leaf.kind != 'ret': return [Query('no-%s' % leaf.kind, z3.BoolVal(True))]
    if sl.template == 't_implname': return names_queries(a, leaf, py)
    if sl.template == 't_impl6': return six_queries(a, leaf, py)
    acc = acceptable(a)
    if not is_ok(py): return [Query('rejected-implies-unacceptable', acc)]
    f = a[4:12]
    it = Item(items(py)['m::T'])
    bad = [z3.Not(acc)]
    fns = [x for x in it.functions if x.name == 'g0']
    if len(fns) != 1 or len(it.functions) != 1:
        bad.append(z3.BoolVal(True))
    else:
        fn = fns[0]
        if fn.body[0] != 'address': bad.append(z3.BoolVal(True))
        else: bad.append(bv(fn.body[1]) != a[2])
        # receiver + parameters in declared order
        args = list(fn.args)
        recv = args[0] if args and isinstance(args[0], str) else None
        rest = args[1:] if recv else args
        bad.append(z3.And(f[0] == 0, z3.BoolVal(recv is not None)))
        bad.append(z3.And(f[0] == 1, z3.BoolVal(recv != '&self')))
        bad.append(z3.And(f[0] == 2, z3.BoolVal(recv != '&mut self')))
        bad.append(f[1] != len(rest))
        for j, arg in enumerate(rest):
            if arg[0] != 'a%d' % j: bad.append(z3.BoolVal(True))
            for k, ty in ARGT.items():
                if arg[1] != ty: bad.append(f[2 + j] == k)
        # return type
        bad.append(z3.And(f[5] == 0, z3.BoolVal(fn.ret is not None)))
        for k, ty in ARGT.items():
            if fn.ret != ty: bad.append(f[5] == k + 1)
        # visibility and calling convention (C16 checks the latter in more positions)
        bad.append(z3.And(f[7] != 0, z3.BoolVal(fn.vis != 'pub')))
        bad.append(z3.And(f[7] == 0, z3.BoolVal(fn.vis != 'priv')))
        if fn.cc in CC: bad.append(expected_cc(f) != CC.index(fn.cc))
        else: bad.append(z3.BoolVal(True))
    return [Query('accepted-wrapper-has-declared-address-and-signature', z3.Or(*bad))]


def region_env(a, sl):
    if sl.template == 't_implname': return {'acceptable': names_acceptable(a)}
    if sl.template == 't_impl6': return {}
    f = a[4:12]
    return {'f': f, 'ret_unresolvable': z3.Or(f[5] == 5, f[5] == 7), 'acceptable': acceptable(a)}


def describe(template, args):
    a = [int(x) for x in args]
    if template == 't_impl6':
        R = {0: '', 1: '&self', 2: '&mut self'}
        n_ = min(a[3], 6); kind = a[11] if len(a) > 11 else 0
        nm = lambda j: 'this' if (kind == 1 and j == 0) else 'f' if ((kind == 2 and j == 0) or (kind == 3 and j == n_ - 1)) else 'a%d' % j
        ps_ = [R.get(a[2], '')] + ['%s: %s' % (nm(j), ARGS_TXT.get(a[4 + j], '?')) for j in range(n_)]
        owner = '#[packed]\npub type T { pub b: u8, pub a: u32 }' if len(a) > 12 and a[12] else '#[align(4)]\npub type T { pub a: u32 }'
        return '// pointer size %d\n%s\nimpl T {\n    #[address(%d)] pub fn g0(%s)%s;\n}' % (
            a[0], owner, a[1], ', '.join(x for x in ps_ if x), '' if a[10] == 0 else ' -> ' + ARGS_TXT.get(a[10] - 1, '?'))
    if template == 't_implname':
        R = {0: '', 1: '&self', 2: '&mut self'}
        vn = {1: 'g0', 2: 'g1', 3: 'h'}; bn = {1: 'pub fn g0', 2: 'pub fn g1', 3: 'fn g0', 4: 'pub fn h'}
        out = '// pointer size %d\n' % a[0]
        if a[6]: out += 'type Bz { pub x: u32 }\nimpl Bz { #[address(256)] %s(&self) -> u32; }\n' % bn.get(a[6], '?')
        out += 'type T { %s%s pub a: u32 }\n' % ('vftable { pub fn %s(&self); } ' % vn.get(a[5], '?') if a[5] else '', '#[base] pub b: Bz,' if a[6] else 'pub a2: u32,')
        out += 'impl T {\n    #[address(%d)] pub fn %s(%s) -> u32;\n' % (a[1], '_g0' if len(a) > 9 and a[9] else 'g0', ', '.join(x for x in (R.get(a[7], ''), 'a0: u32') if x))
        if a[3] >= 2: out += '    #[address(%d)] pub fn %s(%s) -> u64;\n' % (a[2], 'g0' if a[4] else 'g1', R.get(a[8], ''))
        return out + '}'
    def s64(v):
        v &= (1 << 64) - 1
        return v - (1 << 64) if v >> 63 else v
    f = a[4:12]
    attrs = []
    if a[1]: attrs.append('address(%d)' % s64(a[2]))
    if a[3]: attrs.append('index(0)')
    if f[6]: attrs.append('calling_convention("%s")' % CC[min(f[6] - 1, 7)])
    params = ([] if f[0] == 0 else ['&self' if f[0] == 1 else '&mut self']) + ['a%d: %s' % (j, ARGS_TXT.get(f[2 + j], '?')) for j in range(min(f[1], 3))]
    ret = '' if f[5] == 0 else ' -> ' + ARGS_TXT.get(f[5] - 1, '?')
    return '// pointer size %d\n#[align(4)]\npub type T { pub a: u32 }\nimpl T {\n    %s%sfn g0(%s)%s;\n}' % (
        a[0], ('#[%s] ' % ', '.join(attrs)) if attrs else '', 'pub ' if f[7] else '', ', '.join(params), ret)
