"""C05 — address-bound wrappers call the declared address with the declared signature (semantic stage)."""
import z3
from ..check import Slice, Query
from ..summary import Item, items, is_ok, bv

ID = 'C05'
# fixed witnesses: addresses around the 32-bit boundary and with zero nibbles in the middle, every receiver kind
ENGINE_B = {'template': 't_impl', 'kinds': ['addrcall_'], 'max_quick': 14, 'max_thorough': 64, 'abi': True,
            'fixed': [[8, 1, 0x100000000, 0, 1, 2, 0, 2, 0, 1, 0, 1], [8, 1, 0x7FF600123456, 0, 2, 1, 0, 0, 0, 0, 0, 1], [8, 1, 0xFFFFFFFF, 0, 0, 0, 0, 0, 0, 1, 0, 1],
                      [8, 1, 0x101000000, 0, 1, 3, 0, 2, 3, 2, 3, 0], [8, 1, 0x7FFFFFFFFFFFFFF0, 0, 1, 0, 0, 0, 0, 0, 0, 1]]}
CC = ['C', 'cdecl', 'stdcall', 'fastcall', 'thiscall', 'vectorcall', 'system', 'bogus']
ARGT = {0: ['raw', 'u32'], 1: ['raw', 'u64'], 2: ['const*', ['raw', 'm::T']], 3: ['mut*', ['raw', 'u8']], 5: ['raw', 'bool']}
ARGS_TXT = {0: 'u32', 1: 'u64', 2: '*const T', 3: '*mut u8', 4: 'Nope', 5: 'bool', 6: '*const Nope'}
EXPLANATION = ('Template t_impl (type T with one impl function: receiver none/&self/&mut self, 0..3 parameters chosen among integer, '
               'pointer and unresolvable types, optional return type incl. unresolvable, optional #[address(A)] with A over the whole '
               'isize range, optional calling convention, stray #[index]) is executed symbolically through function::build and '
               'type_definition::build.  Accepted leaves: the function recorded for T must have body Address{A} with A the declared '
               'value, the declared receiver and parameters in order with the declared types, and the declared return type.  '
               'Rejected leaves: the solver must refute that the declaration was acceptable; an acceptable declaration is one with '
               'an address that fits usize and only resolvable types.')
ASSUMPTIONS = ['the emitted wrapper text (backends/rust.rs build_function: transmute of the address, argument order in the call) and '
               'its run-time behaviour are not covered by this check: calling an absolute address cannot be executed by the engines available here',
               'address literal spelling (decimal/hex/underscores) is a parser matter and outside this check']


def bounds(tier):
    return {'parameters': '0..3', 'address': 'full isize range (symbolic)', 'pointer_size': [4, 8],
            'outside': 'more than 3 parameters; wrapper text and execution'}


def assume(a, ps, sub):
    A = [a[0] == ps, z3.ULE(a[1], 1), z3.ULE(a[3], 1)]
    f = a[4:12]
    A += [z3.ULE(f[0], 2), z3.ULE(f[1], 3), z3.ULE(f[2], 6), z3.ULE(f[3], 6), z3.ULE(f[4], 6), z3.ULE(f[5], 7), z3.ULE(f[6], 8), z3.ULE(f[7], 1)]
    if sub == 'args':       # every mix of integer / pointer / unresolvable parameters
        A += [z3.ULE(f[5], 1), f[6] == 0, f[7] == 1, a[3] == 0]
        A += [z3.Or(f[2 + j] == 0, f[2 + j] == 2, f[2 + j] == 3, f[2 + j] == 4, f[2 + j] == 6) for j in range(3)]
    elif sub == 'ret':      # every return type, incl. unresolvable ones
        A += [z3.ULE(f[1], 1), z3.Or(f[2] == 0, f[2] == 4), f[6] == 0, f[7] == 1, a[3] == 0]
    else:                   # calling convention, visibility, stray index
        A += [f[1] == 0, z3.ULE(f[5], 1)]
    return A


def slices(tier, rng):
    out = []
    for ps in (4, 8):
        for sub in ('args', 'ret', 'attrs'):
            if tier == 'quick' and ps == 8 and sub == 'args': continue
            out.append(Slice('%s-ps%d' % (sub, ps), 't_impl', 12, lambda a, ps=ps, sub=sub: assume(a, ps, sub),
                             opts={'must_reach': ['ok', 'err']}))
    return out


def acceptable(a):
    f = a[4:12]
    unres = lambda k: z3.Or(k == 4, k == 6)
    args_ok = z3.And(*[z3.Implies(z3.UGT(f[1], j), z3.Not(unres(f[2 + j]))) for j in range(3)])
    ret_ok = z3.Not(z3.Or(f[5] == 5, f[5] == 7))       # ret code k+1 with k in {4, 6}
    cc_ok = f[6] != 8
    return z3.And(a[1] != 0, a[2] >= 0, a[3] == 0, args_ok, ret_ok, cc_ok)


def expected_cc(f):
    """index into CC of the convention the function must carry"""
    return z3.If(f[6] != 0, f[6] - 1, z3.If(f[0] != 0, z3.BitVecVal(4, 64), z3.BitVecVal(6, 64)))


def leaf_queries(I, a, leaf, py, sl):
    if leaf.kind != 'ret': return [Query('no-%s' % leaf.kind, z3.BoolVal(True))]
    acc = acceptable(a)
    if not is_ok(py): return [Query('rejected-implies-unacceptable', acc)]
    f = a[4:12]
    it = Item(items(py)['m::T'])
    bad = [z3.Not(acc)]
    fns = [x for x in it.functions if x.name == 'g0']
    if len(fns) != 1 or len(it.functions) != 1:
        bad.append(z3.BoolVal(True))
    else:
        fn = fns[0]
        if fn.body[0] != 'address': bad.append(z3.BoolVal(True))
        else: bad.append(bv(fn.body[1]) != a[2])
        # receiver + parameters in declared order
        args = list(fn.args)
        recv = args[0] if args and isinstance(args[0], str) else None
        rest = args[1:] if recv else args
        bad.append(z3.And(f[0] == 0, z3.BoolVal(recv is not None)))
        bad.append(z3.And(f[0] == 1, z3.BoolVal(recv != '&self')))
        bad.append(z3.And(f[0] == 2, z3.BoolVal(recv != '&mut self')))
        bad.append(f[1] != len(rest))
        for j, arg in enumerate(rest):
            if arg[0] != 'a%d' % j: bad.append(z3.BoolVal(True))
            for k, ty in ARGT.items():
                if arg[1] != ty: bad.append(f[2 + j] == k)
        # return type
        bad.append(z3.And(f[5] == 0, z3.BoolVal(fn.ret is not None)))
        for k, ty in ARGT.items():
            if fn.ret != ty: bad.append(f[5] == k + 1)
        # visibility and calling convention (C16 checks the latter in more positions)
        bad.append(z3.And(f[7] != 0, z3.BoolVal(fn.vis != 'pub')))
        bad.append(z3.And(f[7] == 0, z3.BoolVal(fn.vis != 'priv')))
        if fn.cc in CC: bad.append(expected_cc(f) != CC.index(fn.cc))
        else: bad.append(z3.BoolVal(True))
    return [Query('accepted-wrapper-has-declared-address-and-signature', z3.Or(*bad))]


def region_env(a, sl):
    f = a[4:12]
    return {'f': f, 'ret_unresolvable': z3.Or(f[5] == 5, f[5] == 7), 'acceptable': acceptable(a)}


def describe(template, args):
    a = [int(x) for x in args]
    def s64(v):
        v &= (1 << 64) - 1
        return v - (1 << 64) if v >> 63 else v
    f = a[4:12]
    attrs = []
    if a[1]: attrs.append('address(%d)' % s64(a[2]))
    if a[3]: attrs.append('index(0)')
    if f[6]: attrs.append('calling_convention("%s")' % CC[min(f[6] - 1, 7)])
    params = ([] if f[0] == 0 else ['&self' if f[0] == 1 else '&mut self']) + ['a%d: %s' % (j, ARGS_TXT.get(f[2 + j], '?')) for j in range(min(f[1], 3))]
    ret = '' if f[5] == 0 else ' -> ' + ARGS_TXT.get(f[5] - 1, '?')
    return '// pointer size %d\n#[align(4)]\npub type T { pub a: u32 }\nimpl T {\n    %s%sfn g0(%s)%s;\n}' % (
        a[0], ('#[%s] ' % ', '.join(attrs)) if attrs else '', 'pub ' if f[7] else '', ', '.join(params), ret)
