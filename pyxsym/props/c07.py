"""C07 — base members are re-exposed on derived types and act on the base sub-object (semantic stage)."""
import z3
from ..check import Slice, Query
from ..summary import Item, items, is_ok, bv
from ..session import concretize_py
from . import inherit_spec as IS
from . import c06

ID = 'C07'
# fixed witnesses: a base type occurring twice (no AsRef), a second-level type with a second base, name clashes
ENGINE_B = [{'template': 't_inherit', 'kinds': ['forward_', 'asref_'], 'max_quick': 12, 'max_thorough': 64,
            'fixed': [[8, 1, 1, 1, 0, 0, 1, 0, 1, 1, 1, 1, 1, 0, 0, 1, 0], [8, 1, 1, 1, 0, 0, 1, 0, 1, 1, 0, 0, 1, 0, 0, 0, 1],
                      [8, 1, 1, 1, 1, 0, 1, 0, 1, 1, 1, 1, 1, 0, 1, 0, 0]]},
            # base fields that are themselves private: forwarders run (inside the module) and are reachable from outside it
            {'template': 't_privbase', 'kinds': ['forward_', 'asref_', 'layout_'], 'max_quick': 6, 'max_thorough': 16,
             'fixed': [[8, 1, 0, 1, 1, 1], [8, 0, 1, 1, 0, 1], [8, 1, 1, 1, 1, 1], [8, 1, 0, 0, 1, 0]]}]
EXPLANATION = ('Template t_inherit with impl blocks on the bases and on the derived type (public or private), one or two bases with or without '
               'vftables, name clashes between the bases\' functions and between base virtual functions and the derived table, and a '
               'second-level derived type.  For each leaf the solver shows that the path condition admits exactly one description; the '
               'associated-function list the real code produced for every type is then compared with the reference model of the '
               'property: every public associated function of every base (incl. those it inherited), and every public virtual function '
               'of every base other than the first, appears under its own name or <field>_<name> when taken, with body '
               '`Field{base field, original name}` (the forwarding target that makes the callee see the base sub-object), private '
               'functions are not re-exposed, and the derived type\'s own functions follow.')
ASSUMPTIONS = c06.ASSUMPTIONS + ['the forwarding body text, AsRef/AsMut emission and the run-time receiver address are produced/decided by backends/rust.rs and rustc and are '
                                 'not executed by this check']


def bounds(tier):
    return {'depth': 2, 'bases per type': '<= 2', 'pointer_size': [4, 8], 'outside': 'diamonds, three bases, AsRef/AsMut emission, run-time receiver'}


def slices(tier, rng):
    out = [Slice('assoc-ps%d' % ps, 't_inherit', 17, lambda a, ps=ps: c06.assume(a, ps, 'assoc'), opts={'must_reach': ['ok']})
           for ps in (4, 8)]
    out += [Slice('privbase-ps%d' % ps, 't_privbase', 6, lambda a, ps=ps: [a[0] == ps] + [z3.ULE(a[i], 1) for i in range(1, 6)] +
                  [z3.Implies(a[3] == 0, z3.And(a[2] == 0, a[5] == 0))], opts={'must_reach': ['ok']}) for ps in (4, 8)]
    return out


def privbase_queries(a, leaf, py):
    """every description of t_privbase is acceptable; D re-exposes k (and kb, g0 of the second base) as public forwarders whatever the
    visibility of the base field, and the fields keep the declared visibility"""
    if not is_ok(py): return [Query('private-base-field-description-accepted', z3.BoolVal(True))]
    it = Item(items(py)['m::D'])
    bad = []
    fns = {f.name: f for f in it.functions}
    def fwd(name, field, when):
        f = fns.get(name)
        if f is None or f.vis != 'pub' or tuple(f.body) != ('field', field, name): bad.append(when)
    fwd('k', 'a', z3.BoolVal(True))
    fwd('kb', 'b', a[3] != 0)
    fwd('g0', 'b', z3.And(a[3] != 0, a[5] != 0))
    n_exp = z3.If(a[3] != 0, z3.If(a[5] != 0, z3.BitVecVal(3, 64), z3.BitVecVal(2, 64)), z3.BitVecVal(1, 64))
    bad.append(n_exp != len(it.functions))
    regs = {r.name: r for r in it.regions}
    for name, idx in (('a', 1), ('b', 2)):
        r = regs.get(name)
        if r is None:
            if name == 'a': bad.append(z3.BoolVal(True))
            else: bad.append(a[3] != 0)
            continue
        bad.append(z3.And(a[idx] != 0, z3.BoolVal(r.vis != 'priv')))
        bad.append(z3.And(a[idx] == 0, z3.BoolVal(r.vis != 'pub')))
        if not r.is_base: bad.append(z3.BoolVal(True))
    return [Query('public-base-functions-re-exposed-through-private-base-fields', z3.Or(*bad))]


def compare_assoc(py, M, out):
    its = items(py)
    for tn, exp in M['types'].items():
        path = 'm::' + tn
        if path not in its: out.append('%s missing' % path); continue
        it = Item(its[path])
        got = []
        for f in it.functions:
            body = tuple(f.body) if f.body[0] != 'address' else ('address', f.body[1])
            got.append((f.name, body, f.vis))
        want = [(n, tuple(b) if b[0] != 'address' else b, v) for (n, b, v) in exp['assoc']]
        if got != want: out.append('%s functions %s != %s' % (tn, got, want))
        # forwarded functions keep receiver, parameters, return type and convention of the original
        for f in it.functions:
            if f.body[0] == 'field' and f.body[2] in ('f0', 'f1'):
                want_sig = dict((x[0], x) for x in IS.base_fns(0))[f.body[2]]
                sig = c06.fn_sig(f)
                if (sig[1], sig[2], sig[3], sig[4]) != (want_sig[1], want_sig[2], want_sig[3], want_sig[4]):
                    out.append('%s.%s signature changed: %s' % (tn, f.name, sig))


def leaf_queries(I, a, leaf, py, sl):
    if leaf.kind != 'ret': return [Query('no-%s' % leaf.kind, z3.BoolVal(True))]
    if sl.template == 't_privbase': return privbase_queries(a, leaf, py)
    m = I.model
    if m is None:
        if I.solver.check() != z3.sat: return [Query('leaf-feasible', z3.BoolVal(True))]
        m = I.solver.model()
    wit = [m.eval(x, model_completion=True).as_long() for x in a]
    qs = [Query('leaf-covers-exactly-one-description', c06.pinned(a, wit))]
    M = IS.model(IS.params(wit))
    if M is None: return qs
    M['ps'] = wit[0]
    problems = []
    if is_ok(py):
        if not M['accept']: problems.append('accepted although the reference rejects')
        else:
            cpy = concretize_py(py, m)
            compare_assoc(cpy, M, problems)
    elif M['accept']:
        problems.append('rejected although the reference accepts')
    this = z3.And(*[a[i] == z3.BitVecVal(wit[i], 64) for i in range(17)])
    qs.append(Query('functions-match-reference:' + ('; '.join(problems)[:300] if problems else 'ok'), this if problems else z3.BoolVal(False)))
    return qs


def region_env(a, sl): return {}


def describe(template, args):
    if template == 't_privbase':
        a = [int(x) for x in args]
        return ('// pointer size %d\ntype A { %spub ax: *const u8 }  impl A { #[address(256)] pub fn k(&self) -> u32; }\n'
                'type B { %spub bx: *const u8 }  impl B { #[address(512)] pub fn kb(&mut self); }\n'
                'type D { #[base] %sa: A, %spub dx: *const u8 }') % (
                    a[0], 'vftable { pub fn f0(&self); } ' if a[4] else '', 'vftable { pub fn g0(&self, x: u32) -> u32; } ' if a[5] else '',
                    '' if a[1] else 'pub ', ('#[base] %sb: B, ' % ('' if a[2] else 'pub ')) if a[3] else '')
    return IS.describe(args)
