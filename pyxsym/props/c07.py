"""C07 — base members are re-exposed on derived types and act on the base sub-object (semantic stage)."""
import z3
from ..check import Slice, Query
from ..summary import Item, items, is_ok, bv
from ..session import concretize_py
from . import inherit_spec as IS
from . import c06

ID = 'C07'
# fixed witnesses: a base type occurring twice (no AsRef), a second-level type with a second base, name clashes
ENGINE_B = {'template': 't_inherit', 'kinds': ['forward_', 'asref_'], 'max_quick': 12, 'max_thorough': 64,
            'fixed': [[8, 1, 1, 1, 0, 0, 1, 0, 1, 1, 1, 1, 1, 0, 0, 1, 0], [8, 1, 1, 1, 0, 0, 1, 0, 1, 1, 0, 0, 1, 0, 0, 0, 1],
                      [8, 1, 1, 1, 1, 0, 1, 0, 1, 1, 1, 1, 1, 0, 1, 0, 0]]}
EXPLANATION = ('Template t_inherit with impl blocks on the bases and on the derived type (public or private), one or two bases with or without '
               'vftables, name clashes between the bases\' functions and between base virtual functions and the derived table, and a '
               'second-level derived type.  For each leaf the solver shows that the path condition admits exactly one description; the '
               'associated-function list the real code produced for every type is then compared with the reference model of the '
               'property: every public associated function of every base (incl. those it inherited), and every public virtual function '
               'of every base other than the first, appears under its own name or <field>_<name> when taken, with body '
               '`Field{base field, original name}` (the forwarding target that makes the callee see the base sub-object), private '
               'functions are not re-exposed, and the derived type\'s own functions follow.')
ASSUMPTIONS = c06.ASSUMPTIONS + ['the forwarding body text, AsRef/AsMut emission and the run-time receiver address are produced/decided by backends/rust.rs and rustc and are '
                                 'not executed by this check']


def bounds(tier):
    return {'depth': 2, 'bases per type': '<= 2', 'pointer_size': [4, 8], 'outside': 'diamonds, three bases, AsRef/AsMut emission, run-time receiver'}


def slices(tier, rng):
    return [Slice('assoc-ps%d' % ps, 't_inherit', 17, lambda a, ps=ps: c06.assume(a, ps, 'assoc'), opts={'must_reach': ['ok']})
            for ps in (4, 8)]


def compare_assoc(py, M, out):
    its = items(py)
    for tn, exp in M['types'].items():
        path = 'm::' + tn
        if path not in its: out.append('%s missing' % path); continue
        it = Item(its[path])
        got = []
        for f in it.functions:
            body = tuple(f.body) if f.body[0] != 'address' else ('address', f.body[1])
            got.append((f.name, body, f.vis))
        want = [(n, tuple(b) if b[0] != 'address' else b, v) for (n, b, v) in exp['assoc']]
        if got != want: out.append('%s functions %s != %s' % (tn, got, want))
        # forwarded functions keep receiver, parameters, return type and convention of the original
        for f in it.functions:
            if f.body[0] == 'field' and f.body[2] in ('f0', 'f1'):
                want_sig = dict((x[0], x) for x in IS.base_fns(0))[f.body[2]]
                sig = c06.fn_sig(f)
                if (sig[1], sig[2], sig[3], sig[4]) != (want_sig[1], want_sig[2], want_sig[3], want_sig[4]):
                    out.append('%s.%s signature changed: %s' % (tn, f.name, sig))


def leaf_queries(I, a, leaf, py, sl):
    if leaf.kind != 'ret': return [Query('no-%s' % leaf.kind, z3.BoolVal(True))]
    m = I.model
    if m is None:
        if I.solver.check() != z3.sat: return [Query('leaf-feasible', z3.BoolVal(True))]
        m = I.solver.model()
    wit = [m.eval(x, model_completion=True).as_long() for x in a]
    qs = [Query('leaf-covers-exactly-one-description', c06.pinned(a, wit))]
    M = IS.model(IS.params(wit))
    if M is None: return qs
    M['ps'] = wit[0]
    problems = []
    if is_ok(py):
        if not M['accept']: problems.append('accepted although the reference rejects')
        else:
            cpy = concretize_py(py, m)
            compare_assoc(cpy, M, problems)
    elif M['accept']:
        problems.append('rejected although the reference accepts')
    this = z3.And(*[a[i] == z3.BitVecVal(wit[i], 64) for i in range(17)])
    qs.append(Query('functions-match-reference:' + ('; '.join(problems)[:300] if problems else 'ok'), this if problems else z3.BoolVal(False)))
    return qs


def region_env(a, sl): return {}


def describe(template, args): return IS.describe(args)
