"""C14 — every declared item is emitted exactly once, in its module (item level)."""
import z3
from ..check import Slice, Query
from ..summary import Item, items, is_ok, modules, bv

ID = 'C14'
EXPLANATION = ('Template t_items: module m declares `T` (optionally with a vftable block); optionally a second declaration named `T` '
               '(a type or an enum), a user type named `TVftable` next to the generated one, an extern type named `T`, and a '
               'second module n with its own `T`.  The interpreter executes add_module / add_item / the resolution loop.  Accepted '
               'leaves: the solver must refute that two declarations produced the same item path (a silent overwrite) and that a '
               'declared item is missing from, or appears outside, its module\'s definition set; rejected leaves: it must refute '
               'that no collision existed.')
ASSUMPTIONS = ['file naming, directory creation, prologue/epilogue joining and formatting (lib.rs, write_module) are file-system code and outside this check',
               'one struct/enum per item in the emitted text is build_item\'s job and not executed here']


def bounds(tier):
    return {'collisions': ['type/type', 'type/enum', 'type/generated vftable struct', 'type/extern type', 'same name in two modules'], 'pointer_size': [4, 8]}


def slices(tier, rng):
    return [Slice('items-ps%d' % ps, 't_items', 9, lambda a, ps=ps: [a[0] == ps] + [z3.ULE(a[i], 1) for i in range(1, 7)] + [z3.ULE(a[7], 5), z3.Implies(z3.Or(a[1] != 0, a[3] != 0, a[4] != 0, a[6] != 0), a[7] == 0),
                                                                     z3.ULE(a[8], 1), z3.Implies(z3.Or(a[3] != 0, a[6] != 0), a[8] == 0)],
                  opts={'must_reach': ['ok']}) for ps in (4, 8)]


def collision(a):
    return z3.Or(a[1] != 0, a[3] != 0, a[4] != 0, a[6] != 0)


def leaf_queries(I, a, leaf, py, sl):
    if leaf.kind != 'ret': return [Query('no-%s' % leaf.kind, z3.BoolVal(True))]
    if not is_ok(py): return [Query('rejected-implies-collision', z3.Not(collision(a)))]
    its = items(py); mods = modules(py)
    bad = [collision(a)]
    # m::T must be the first declaration (field `a`), in module m only; n::T in module n only
    def paths_of(mod): return [it[1] for it in mods[mod][3]] if mod in mods else []
    if 'm::T' not in its or paths_of('m').count('m::T') != 1: bad.append(z3.BoolVal(True))
    else:
        T = Item(its['m::T'])
        if T.kind != 'type' or [r.name for r in T.regions if r.name != 'vftable'] != ['a']: bad.append(z3.BoolVal(True))
    # one generated table type for every type that declares a vftable block, also an empty one
    has_tab = paths_of('m').count('m::TVftable')
    bad.append(z3.If(z3.Or(a[3] != 0, a[6] != 0, a[8] != 0), z3.BoolVal(has_tab != 1), z3.BoolVal(has_tab != 0)))
    has_n = 'n::T' in its
    bad.append(z3.BoolVal(has_n) != (a[5] != 0))
    if has_n and (paths_of('n') != ['n::T'] or [r.name for r in Item(its['n::T']).regions] != ['c']): bad.append(z3.BoolVal(True))
    if any(p.startswith('n::') for p in paths_of('m')) or any(p.startswith('m::') for p in paths_of('n')): bad.append(z3.BoolVal(True))
    # rust backend blocks: every one, complete, in source order; other backends' text is kept apart
    WANT = {0: [], 1: [1], 2: [1, 2], 3: [1, 2], 4: [1], 5: [1, 2, 3]}
    got = mods['m'][5] if 'm' in mods and len(mods['m']) > 5 else None
    for code, idxs in WANT.items():
        want = [['const P%d: u8 = 1;' % i, 'const E%d: u8 = 2;' % i] for i in idxs]
        if got != want: bad.append(a[7] == code)
    return [Query('accepted-implies-no-collision-and-every-item-in-its-module', z3.Or(*bad))]


def file_check(summ, files, args):
    """file-level clauses on an emitted witness (concrete, with the real backend): one file per module at `<module path>.rs`, every
    declared item exactly once and only in the file of its module, rust backend blocks (prologue before, epilogue after) each once"""
    import re as _re
    problems = []
    mods = {m[1]: m for m in summ[1]}
    want_files = set()
    for mp, m in mods.items():
        if mp == '': continue
        fn = mp.replace('::', '/') + '.rs'
        want_files.add(fn)
        if fn not in files: problems.append('no file %s for module %s' % (fn, mp)); continue
        text = files[fn]
        for it in m[3]:
            name = it[1].split('::')[-1]
            kind = it[4][3][0] if it[4][0] == 'resolved' else None
            if it[3] != 'defined' or kind is None: continue
            kw = 'struct' if kind == 'type' else 'enum'
            n_here = len(_re.findall(r'\b%s\s+%s\b' % (kw, _re.escape(name)), text))
            if n_here != 1: problems.append('%s %s occurs %d times in %s' % (kw, name, n_here, fn))
            for other, otext in files.items():
                if other == fn: continue
                om = mods.get(other[:-3].replace('/', '::'))
                own_names = [x[1].split('::')[-1] for x in om[3]] if om else []
                if name not in own_names and _re.search(r'\b%s\s+%s\b' % (kw, _re.escape(name)), otext):
                    problems.append('%s %s also emitted in %s' % (kw, name, other))
        for pro, epi in m[5]:
            for t in (pro, epi):
                if t is None: continue
                ident = _re.search(r'const (\w+)', t)
                if ident and len(_re.findall(r'\bconst\s+%s\b' % ident.group(1), text)) != 1:
                    problems.append('backend text `%s` occurs %d times in %s' % (t, len(_re.findall(r'\bconst\s+%s\b' % ident.group(1), text)), fn))
        # prologues precede the items, epilogues follow them, both in source order
        pos = [text.find('const P%d' % i) for i in (1, 2, 3) if 'const P%d' % i in text] + [text.find('struct ')] + \
              [text.find('fn get_%s' % ev[2]) for ev in m[4]] + \
              [text.find('const E%d' % i) for i in (1, 2, 3) if 'const E%d' % i in text]
        for ev in m[4]:
            if len(_re.findall(r'\bfn get_%s\b' % _re.escape(ev[2]), text)) != 1: problems.append('accessor get_%s occurs %d times in %s' % (ev[2], len(_re.findall(r'\bfn get_%s\b' % _re.escape(ev[2]), text)), fn))
        if pos != sorted(pos) or -1 in pos: problems.append('prologues, items, accessors and epilogues are not in this order in %s' % fn)
        for cb in ('CP', 'CE'):
            if _re.search(r'\b%s\b' % cb, text): problems.append('text of another backend in %s' % fn)
    extra = set(files) - want_files
    if extra: problems.append('unexpected files %s' % sorted(extra))
    return problems


FILE_CHECK = {'template': 't_items', 'max_quick': 24, 'max_thorough': 64, 'fn': file_check,
              'fixed': [[8, 0, 0, 0, 0, 1, 0, 5, 0], [8, 0, 0, 0, 0, 1, 0, 3, 1], [8, 0, 0, 0, 0, 0, 0, 4, 0], [8, 0, 0, 0, 0, 0, 0, 0, 1]]}


def region_env(a, sl): return {}


def describe(template, args):
    a = [int(x) for x in args]
    out = ['// pointer size %d' % a[0], 'module m:']
    out.append('  pub type T { %spub a: *const u8 }' % ('vftable { pub fn f(&self); }, ' if (a[3] or (len(a) > 6 and a[6])) else 'vftable {}, ' if (len(a) > 8 and a[8]) else ''))
    if a[1]: out.append('  pub enum T: u32 { A }' if a[2] else '  #[align(8)] pub type T { pub b: u64 }')
    if a[3]: out.append('  pub type TVftable { pub z: *const u8 }')
    if a[4]: out.append('  #[size(4), align(4)] extern type T;')
    if len(a) > 6 and a[6]: out.append('  #[size(64), align(8)] extern type TVftable;   (T has a vftable block)')
    out.append('  #[address(64)] pub extern ev: u32;')
    if len(a) > 7 and a[7]: out.append('  backend blocks: ' + {1: 'rust', 2: 'rust, rust', 3: 'rust, cpp, rust', 4: 'cpp, rust', 5: 'rust, rust, cpp, rust'}.get(a[7], '?'))
    if a[5]: out.append('module n:\n  pub type T { pub c: *mut u8 }')
    return '\n'.join(out)
