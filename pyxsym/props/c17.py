"""C17 — visibility, derives, packing and documentation are carried over faithfully."""
import z3
from ..check import Slice, Query
from ..summary import Item, items, modules, is_ok, bv

ID = 'C17'
ENGINE_B = {'template': 't_marks', 'kinds': ['marks_', 'layout_', 'enum_'], 'max_quick': 24, 'max_thorough': 96, 'marks': True,
            'fixed': [[8, 1, 1, 0, 1, 1, 0, 1, 0, 2, 1, 2, 1, 1, 0, 1, 1, 1, 2, 2, 0], [8, 0, 0, 1, 0, 0, 1, 0, 1, 0, 2, 0, 0, 0, 1, 0, 2, 0, 1, 0, 1],
                      [8, 1, 0, 0, 0, 0, 0, 0, 1, 1, 0, 0, 1, 0, 0, 0, 0, 0, 0, 1, 0], [8, 1, 1, 1, 1, 1, 1, 1, 1, 2, 2, 2, 1, 1, 1, 1, 2, 1, 2, 2, 1]]}
EXPLANATION = ('Template t_marks declares a module with a doc comment, a type (public or private, any subset of copyable / cloneable / '
               'defaultable, packed or aligned, 0..2 doc lines or three lines with an empty middle one) with two fields (public / private, documented or not), an address-bound '
               'function and a virtual function (public / private, documented or not) and an enum with the same markers.  It is executed '
               'symbolically through the semantic stage over every flag vector: the solver must refute, on every path, that the resolved model '
               'carries a visibility, marker, packing flag or doc text other than the declared one (copyable implies cloneable; the vftable '
               'pointer field and the generated table type follow the documented rules; the doc of a virtual function is on the wrapper and on '
               'its slot).  Engine B then emits sampled witnesses with the real backend: rustc-evaluated probes decide which of Copy / Clone / '
               'Default each emitted type implements and the alignment of packed types, a module outside the emitted one names every public item, '
               'and the emitted text is compared line by line with the model for `pub`, derive lists, repr attributes and `///` lines (each doc '
               'line on the counterparts of its item and nowhere else).')
ASSUMPTIONS = ['the all-inputs part is the semantic model; the emitted text and its rustc view are decided for the sampled witnesses only',
               'doc comments reach the semantic stage as doc attributes (the parser step is C18, not applicable)',
               'one derived type (one base, public or private base field) carries the inherited copy of one documented function; deeper hierarchies are C07\'s']


def bounds(tier):
    return {'items': 'one module, one type with two fields, one impl function, one type with a virtual function, one enum', 'doc lines per item': '0..2, and three lines with an empty middle line',
            'markers': 'every subset of copyable / cloneable / defaultable on the type and on the enum; packed or align(8)', 'pointer_size': [4, 8],
            'combination': 'all flags of the type group (type, fields, impl function) jointly with the other group pinned, and vice versa; not the full product of both groups'}


DOCS = (9, 10, 11, 16, 18, 19)


def assume(a, ps, tier, group):
    """the type group varies everything about T, its fields and its impl function; the other group varies the enum, the virtual function and the
    module doc; the group that is not varied is pinned to one representative description (the flags are independent in the code under test)"""
    A = [a[0] == ps] + [z3.ULE(a[i], 1) for i in (1, 2, 3, 4, 5, 6, 7, 8, 12, 13, 14, 15, 17, 20)] + [z3.ULE(a[i], 3) for i in DOCS]
    tgroup = (1, 2, 3, 5, 6, 7, 8, 9, 10); ogroup = (12, 13, 14, 15, 16, 17, 18, 19)      # a[4], a[11], a[20] (function and base field) vary in both groups
    pinned = ogroup if group == 'type' else tgroup
    PIN = {1: 1, 2: 1, 3: 0, 5: 0, 6: 1, 7: 0, 8: 0, 9: 1, 10: 1, 12: 1, 13: 1, 14: 0, 15: 1, 16: 1, 17: 1, 18: 1, 19: 1}
    A += [a[i] == PIN[i] for i in pinned]
    if group == 'type': A.append(a[11] == 1)      # the function's doc lines vary in the other group
    if tier == 'quick':
        # doc-line counts vary one item at a time (the others carry one line)
        mine = [i for i in DOCS if i not in pinned and not (group == 'type' and i == 11)]
        dev = [z3.If(a[i] != 1, z3.BitVecVal(1, 8), z3.BitVecVal(0, 8)) for i in mine]
        A.append(z3.ULE(sum(dev[1:], dev[0]), 1))
    return A


def slices(tier, rng):
    out = []
    for ps in ((8,) if tier == 'quick' else (4, 8)):
        for group in ('type', 'other'):
            out.append(Slice('marks-%s-ps%d' % (group, ps), 't_marks', 21, lambda a, ps=ps, group=group: assume(a, ps, tier, group), opts={'must_reach': ['ok']}))
    return out


def doc_text(what, n):
    # n == 3: three lines with an empty middle line (a bare `///` between two paragraphs)
    return None if n == 0 else '\n'.join('' if (n == 3 and i == 1) else ' %s doc %d' % (what, i) for i in range(n))


def leaf_queries(I, a, leaf, py, sl):
    if leaf.kind != 'ret': return [Query('no-%s' % leaf.kind, z3.BoolVal(True))]
    if not is_ok(py): return [Query('every-marker-combination-is-accepted', z3.BoolVal(True))]
    its = items(py); mods = modules(py)
    bad = []
    def vis_is(got, flag): bad.append(z3.BoolVal(got == 'pub') != (flag != 0))
    def flag_is(got, cond):
        if isinstance(got, z3.ExprRef): bad.append(got != cond)
        else: bad.append(z3.BoolVal(bool(got)) != cond)
    def doc_is(got, what, n):
        for k in range(4):
            if got != doc_text(what, k): bad.append(n == k)
    try:
        T = Item(its['m::T']); E = Item(its['m::E']); V = Item(its['m::V']); VV = Item(its['m::VVftable'])
        vis_is(T.vis, a[1]); doc_is(T.doc, 'T', a[9])
        flag_is(T.copyable, a[5] != 0); flag_is(T.cloneable, z3.Or(a[5] != 0, a[6] != 0)); flag_is(T.defaultable, a[7] != 0); flag_is(T.packed, a[8] != 0)
        ra, rb = [r for r in T.regions if r.name == 'a'][0], [r for r in T.regions if r.name == 'b'][0]
        if len(T.regions) != 2: bad.append(z3.BoolVal(True))
        vis_is(ra.vis, a[2]); vis_is(rb.vis, a[3]); doc_is(ra.doc, 'a', a[10]); doc_is(rb.doc, 'b', z3.BitVecVal(0, 64))
        g = [f for f in T.functions if f.name == 'g'][0]
        vis_is(g.vis, a[4]); doc_is(g.doc, 'g', a[11])
        # the derived type D: base field with the declared visibility; T's function re-exposed, public and documented, iff it is public on T
        D = Item(its['m::D'])
        rt = [r for r in D.regions if r.name == 't'][0]
        vis_is(rt.vis, a[20])
        if not rt.is_base or len(D.regions) != 1: bad.append(z3.BoolVal(True))
        fw = [f for f in D.functions if f.name == 'g']
        bad.append(z3.BoolVal(len(fw) == 1) != (a[4] != 0))
        if len(D.functions) != len(fw): bad.append(z3.BoolVal(True))
        if fw:
            if fw[0].vis != 'pub' or tuple(fw[0].body) != ('field', 't', 'g'): bad.append(z3.BoolVal(True))
            doc_is(fw[0].doc, 'g', a[11])
        vis_is(E.vis, a[12]); doc_is(E.doc, 'E', a[16])
        flag_is(E.copyable, a[13] != 0); flag_is(E.cloneable, z3.Or(a[13] != 0, a[14] != 0)); flag_is(E.defaultable, a[15] != 0)
        if E.default_index is None: bad.append(a[15] != 0)
        else: bad.append(z3.Or(a[15] == 0, bv(E.default_index) != 1))
        # the virtual function: wrapper on V and slot in the generated table both carry visibility and doc; the pointer field is private
        v = [f for f in V.vftable['functions'] if f.name == 'v'][0]
        vis_is(v.vis, a[17]); doc_is(v.doc, 'v', a[18])
        slot = [r for r in VV.regions if r.name == 'v'][0]
        vis_is(slot.vis, a[17]); doc_is(slot.doc, 'v', a[18])
        vp = [r for r in V.regions if r.name == 'vftable'][0]
        if vp.vis != 'priv' or vp.doc is not None: bad.append(z3.BoolVal(True))
        # nothing the description did not mark: the generated table type and V itself
        for it in (V, VV):
            if it.copyable or it.cloneable or it.defaultable or it.packed or it.doc is not None: bad.append(z3.BoolVal(True))
        doc_is(mods['m'][2], 'module', a[19])
    except (KeyError, IndexError, TypeError):
        bad.append(z3.BoolVal(True))
    return [Query('resolved-model-carries-the-declared-visibility-markers-packing-and-docs', z3.Or(*bad))]


def region_env(a, sl): return {}


def describe(template, args):
    a = [int(x) for x in args]
    d = lambda what, n, ind='': ''.join('%s///%s\n' % (ind, l) for l in ([] if not n else doc_text(what, n).split('\n')))
    p = lambda f: 'pub ' if f else ''
    marks = lambda c, cl, df: ''.join(', ' + m for m, f in (('copyable', c), ('cloneable', cl), ('defaultable', df)) if f)
    return ('// pointer size %d\n%s%s#[%s%s]\n%stype T {\n%s    %sa: u64,\n    %sb: u64,\n}\nimpl T {\n%s    #[address(64)] %sfn g(&self) -> u32;\n}\n'
            'pub type D { #[base] %st: T }\npub type V { vftable {\n%s    %sfn v(&self);\n} }\n%s#[_%s]\n%senum E: u32 { A, %sB }') % (
                a[0], d('module', a[19]).replace('///', '//!'), d('T', a[9]), 'packed' if a[8] else 'align(8)', marks(a[5], a[6], a[7]), p(a[1]), d('a', a[10], '    '),
                p(a[2]), p(a[3]), d('g', a[11], '    '), p(a[4]), p(a[20] if len(a) > 20 else 1), d('v', a[18], '    '), p(a[17]), d('E', a[16]), marks(a[13], a[14], a[15]), p(a[12]),
                '#[default] ' if a[15] else '')
