"""C19 — a module's bindings do not depend on unrelated definitions."""
import z3
from ..check import Slice, Query
from ..relational import differs, as_z3, is_ok, is_err, pair_same_outcome

ID = 'C19'
EXPLANATION = ('Product template t_unrelated builds module m (which imports module n) once without and once with an extra module u that '
               'neither m nor n imports or references.  u declares, per flag, types whose short names collide with names m uses (R, the '
               'extern type S with another symbolic size, a type named like m\'s generated vftable struct, an enum K), may import m, '
               'is added before or after the others, and lives at the top level or as a nested module of m or of n (`m::sub`, `n::sub`) that nobody imports.  On every leaf where both builds are accepted the solver must refute that the '
               'summaries of m or n differ in any way (paths bound, sizes, alignment, generated names, vftable items).')
ASSUMPTIONS = ['the observed output is the semantic summary of the module (everything write_module reads for it); file bytes are not produced']


def bounds(tier):
    return {'modules': 'm, n + unrelated u', 'sizes': '< 2^12', 'pointer_size': [4, 8]}


def assume(a, ps):
    return [a[0] == ps, z3.ULT(a[1], 1 << 12), z3.UGE(a[1], 1), z3.ULT(a[5], 1 << 12), z3.UGE(a[5], 1)] + \
           [z3.ULE(a[i], 1) for i in (2, 3, 4, 6, 7, 8, 9, 10)] + [z3.ULE(a[11], 2), z3.ULE(a[12], 1), z3.Implies(a[12] != 0, a[8] != 0), z3.ULE(a[13], 2)]


def slices(tier, rng):
    out = [Slice('unrelated-ps%d' % ps, 't_unrelated', 14, lambda a, ps=ps: assume(a, ps), opts={'must_reach': ['ok/ok']}, ctx={'t': 'u'}) for ps in (4, 8)]
    out.append(Slice('modtype-ps4', 't_modtype', 4, lambda a: [a[0] == 4, z3.ULT(a[1], 1 << 12), z3.UGE(a[1], 1), z3.ULT(a[2], 1 << 12), z3.UGE(a[2], 1), z3.ULE(a[3], 1)],
                     opts={'must_reach': ['ok/ok']}, ctx={'t': 'modtype'}))
    return out


def module_part(o, names):
    return [m for m in o[1] if m[1] in names]


def leaf_queries(I, a, leaf, py, sl):
    if leaf.kind != 'ret': return [Query('no-%s' % leaf.kind, z3.BoolVal(True))]
    o1, o2 = py[0], py[1]
    if not (is_ok(o1) and is_ok(o2)):
        # the property only speaks about input sets that are still accepted; but the unrelated module must not make m fail
        if is_ok(o1) and is_err(o2):
            return [Query('adding-an-unrelated-valid-module-keeps-the-build-accepted', z3.BoolVal(True))]
        return []
    if sl.ctx.get('t') == 'modtype':
        return [Query('observed-modules-are-identical', as_z3(differs(module_part(o1, ('p::q',)), module_part(o2, ('p::q',)))))]
    # n is observed too, unless it is n itself that gains the unreferenced type (a[11] == 2)
    d_m = differs(module_part(o1, ('m',)), module_part(o2, ('m',)))
    d_n = differs(module_part(o1, ('n',)), module_part(o2, ('n',)))
    return [Query('observed-modules-are-identical', z3.Or(as_z3(d_m), z3.And(a[11] != 2, as_z3(d_n))))]


def same_outcome(native, expected): return pair_same_outcome(native, expected)


def region_env(a, sl):
    return {'enclosing_module_declares_type_named_like_the_module': (a[3] == 0) if sl.ctx.get('t') == 'modtype' else z3.BoolVal(False)}


def describe(template, args):
    a = [int(x) for x in args]
    if template == 't_modtype':
        return ('// pointer size %d\nmodule p::q: #[size(%d), align(1)] extern type %s; #[packed] pub type R { pub f: %s }\n'
                'module p: (first build: empty; second build: #[size(%d), align(1)] extern type %s;)') % (a[0], a[1], 'S' if a[3] else 'q', 'S' if a[3] else 'q', a[2], 'S' if a[3] else 'q')
    ti = a[11] if len(a) > 11 else 0
    u = [x for x, f in (('type R', a[3]), ('extern type S (size %d)' % a[5], a[4]), ('type RVftable', a[6]), ('enum K', a[7]), ('use m', a[8]), ('impl R { #[address(4096)] pub fn from_u(&self); }', a[10] if len(a) > 10 else 0)) if f]
    return ('// pointer size %d\nmodule n: #[size(%d), align(1)] extern type S;\nmodule m: use n; #[packed] pub type R { %spub p: *const R, pub f: S } '
            'pub enum K: u32 { A }\nmodule %s (unrelated, added %s): %s') % (a[0], a[1], 'vftable { pub fn f(&self); }, ' if a[2] else '',
                                                                           {1: 'm::sub', 2: 'n::sub'}.get(a[13] if len(a) > 13 else 0, 'u'), 'first' if a[9] else 'last', ', '.join(u) or '(empty)') + (
        '' if not (len(a) > 12 and a[12]) else '\n(m also declares the private `type P { pub z: u32 }` and `enum Q: u32 { A }`; u declares `pub type UP { pub qq: *const Q, pub pp: P, pub pad: u32 }`)') + (
        '' if not ti else '\n(m imports the type by path: `use n::S;`, declares `pub type S2 { pub w: u32 }` and R has `pub g: *const S2`%s)' % (
            '; in the second build n also declares `#[align(8)] pub type S2 { pub a: u64, pub b: u64 }`' if ti == 2 else ''))
