"""C08 — enum discriminants, representation and default variant are as declared."""
import z3
from ..check import Slice, Query
from ..summary import Item, items, is_ok, bv

ID = 'C08'
def _compilable(summ):
    """Engine B witnesses: rustc itself rejects duplicate discriminants and values outside the base type's range, so only
    enums with distinct, representable values can be compiled (the open known finding covers the out-of-range ones)"""
    rng = {'u8': (0, 255), 'u16': (0, 65535), 'u32': (0, 2**32 - 1), 'u64': (0, 2**64 - 1), 'i8': (-128, 127), 'i16': (-2**15, 2**15 - 1),
           'i32': (-2**31, 2**31 - 1), 'i64': (-2**63, 2**63 - 1)}
    for m in summ[1]:
        for it in m[3]:
            inner = it[4][3]
            if inner[0] == 'enum':
                vals = [v for _, v in inner[3]]
                lo, hi = rng.get(inner[1][1], (0, -1))
                if len(set(vals)) != len(vals) or any(not (lo <= v <= hi) for v in vals): return False
    return True


# fixed witnesses: enums whose written values are not ascending / not positional (an explicit value equal to the variant's position after
# a predecessor that is not position - 1, descending values, an implicit variant between explicit ones)
ENGINE_B = {'template': 't_enum', 'kinds': ['enum_'], 'max_quick': 12, 'max_thorough': 64, 'accept': _compilable,
            'fixed': [[8, 6, 3, 0, 1, 0, 0, 0, 1, -1, 0, 0, 0, 0, 1, 2, 0], [8, 1, 3, 0, 1, 0, 0, 0, 1, 16, 0, 1, 1, 0, 1, 32, 0],
                      [8, 7, 3, 0, 1, 0, 0, 0, 0, 0, 0, 1, 100, 0, 1, 2, 0], [8, 2, 3, 1, 1, 1, 0, 0, 1, 2, 0, 1, 1, 1, 1, 0, 0]]}
BASES = [('u8', 8, False), ('u16', 16, False), ('u32', 32, False), ('u64', 64, False),
         ('i8', 8, True), ('i16', 16, True), ('i32', 32, True), ('i64', 64, True)]
VARIANTS = ['V0', 'V1', 'V2', 'V3', 'V4', 'V5', 'V6', 'V7']
EXPLANATION = ('Template t_enum (one enum over each of the eight <=64-bit integer bases, n variants, each with an optional explicit '
               'value ranging over the whole isize range, a default marker on any subset of variants, defaultable/copyable/'
               'cloneable flags) is executed symbolically through enum_definition::build.  Accepted leaves: the solver must refute '
               'that a discriminant differs from "explicit value, else predecessor + 1, else 0", that a discriminant does not '
               'fit the base type, that size/alignment differ from the base type\'s, that the default index is not the marked '
               'variant, or that defaultable and the marker disagree.  Rejected leaves: the solver must refute that the '
               'description was valid.  Panicking leaves are violations.')
ASSUMPTIONS = ['emission of the enum (backends/rust.rs build_enum: `Name = <v> as _`, #[repr(base)], #[default]) is outside this check']


def bounds(tier):
    return {'variants': '<= 3 (quick), <= 4 (thorough) with every variant free; 8 variants with at most one written value; the statement\'s 32 is outside the bound', 'values': 'full isize range (symbolic)',
            'bases': [b[0] for b in BASES], 'pointer_size': [4, 8]}


def assume(a, n, ps):
    A = [a[0] == ps, z3.ULE(a[1], 7), a[2] == n]
    for i in (3, 4, 5): A.append(z3.ULE(a[i], 1))
    A.append(a[6] == 0)
    for i in range(n):
        b = 8 + 3 * i
        A += [z3.ULE(a[b], 1), z3.ULE(a[b + 2], 1)]
    return A


def slices(tier, rng):
    out = []
    nmax = 3 if tier == 'quick' else 4
    for ps in (4, 8):
        for n in range(1, nmax + 1):
            if ps == 8 and n < nmax and tier == 'quick': continue
            if ps == 8 and n == 4: continue
            out.append(Slice('n%d-ps%d' % (n, ps), 't_enum', 8 + 3 * n, lambda a, n=n, ps=ps: assume(a, n, ps),
                             opts={'must_reach': ['ok', 'err']}, ctx={'n': n}))
    # eight variants, at most one of them with a written value (any value, any position): implicit runs of length up to 8
    def long_run(a, ps=4):
        A = assume(a, 8, ps) + [a[3] == 0]
        flags = [z3.If(a[8 + 3 * i] != 0, z3.BitVecVal(1, 8), z3.BitVecVal(0, 8)) for i in range(8)]
        A.append(z3.ULE(sum(flags[1:], flags[0]), 1))
        A += [a[8 + 3 * i + 2] == 0 for i in range(8)]
        A += [z3.Implies(a[8 + 3 * i] == 0, a[8 + 3 * i + 1] == 0) for i in range(8)]
        return A
    out.append(Slice('n8-one-explicit-ps4', 't_enum', 8 + 3 * 8, long_run, opts={'must_reach': ['ok', 'err']}, ctx={'n': 8}))
    return out


def fits(base_idx, v):
    """value v (64-bit two's complement isize) is representable in the base type selected by base_idx"""
    conds = []
    for i, (nm, w, signed) in enumerate(BASES):
        if signed:
            lo = -(1 << (w - 1)); hi = (1 << (w - 1)) - 1
            ok = z3.And(v >= z3.BitVecVal(lo, 64), v <= z3.BitVecVal(hi, 64))
        else:
            hi = (1 << w) - 1
            ok = z3.And(v >= 0, v <= z3.BitVecVal(hi, 64)) if w < 64 else (v >= 0)
        conds.append(z3.Implies(base_idx == i, ok))
    return z3.And(*conds)


def spec(a, n):
    base = a[1]
    vals = []; no_ovf = []
    prev = None
    for i in range(n):
        b = 8 + 3 * i
        if prev is None: implicit = z3.BitVecVal(0, 64)
        else:
            implicit = prev + 1
            # an implicit value after isize::MAX does not exist
            no_ovf.append(z3.Implies(a[b] == 0, prev != z3.BitVecVal((1 << 63) - 1, 64)))
        v = z3.If(a[b] != 0, a[b + 1], implicit)
        vals.append(v); prev = v
    marks = [a[8 + 3 * i + 2] != 0 for i in range(n)]
    nmarks = sum([z3.If(m, z3.BitVecVal(1, 8), z3.BitVecVal(0, 8)) for m in marks], z3.BitVecVal(0, 8))
    defaultable = a[3] != 0
    default_ok = z3.If(defaultable, nmarks == 1, nmarks == 0)
    all_fit = z3.And(*[fits(base, v) for v in vals])
    valid = z3.And(all_fit, default_ok, *no_ovf)
    return vals, marks, defaultable, valid, all_fit, default_ok, z3.And(*no_ovf) if no_ovf else z3.BoolVal(True)


def leaf_queries(I, a, leaf, py, sl):
    n = sl.ctx['n']
    vals, marks, defaultable, valid, all_fit, default_ok, no_overflow = spec(a, n)
    if leaf.kind != 'ret':
        return [Query('no-%s' % leaf.kind, z3.BoolVal(True))]
    if not is_ok(py):
        return [Query('rejected-implies-invalid', valid)]
    it = Item(items(py)['m::E'])
    bad = []
    fit_query = Query('accepted-enum-values-fit-the-base-type', z3.Not(all_fit))
    bad.append(z3.Not(default_ok))
    # an implicit value that would be isize::MAX + 1 has no representation in the model: such an enum must have been rejected
    bad.append(z3.Not(no_overflow))
    if len(it.fields) != n: bad.append(z3.BoolVal(True))
    else:
        for i, (nm, v) in enumerate(it.fields):
            if nm != VARIANTS[i]: bad.append(z3.BoolVal(True))
            bad.append(bv(v) != vals[i])
    # representation: size and alignment of the base type
    for i, (nm, w, s) in enumerate(BASES):
        bad.append(z3.And(a[1] == i, z3.Or(bv(it.size) != w // 8, bv(it.align) != w // 8)))
        if it.type != ['raw', nm]: bad.append(a[1] == i)
    # default index = the marked variant
    if it.default_index is None:
        bad.append(z3.Or(*marks))
    else:
        di = bv(it.default_index)
        for i in range(n): bad.append(z3.And(marks[i], di != i))
        bad.append(z3.Not(z3.Or(*marks)))
    if isinstance(it.defaultable, z3.ExprRef): bad.append(it.defaultable != defaultable)
    else: bad.append(defaultable != z3.BoolVal(bool(it.defaultable)))
    return [fit_query, Query('accepted-enum-is-as-declared', z3.Or(*bad))]


def region_env(a, sl):
    n = sl.ctx['n']
    vals, marks, defaultable, valid, all_fit, default_ok, no_overflow = spec(a, n)
    return {'all_fit': all_fit, 'default_ok': default_ok, 'valid': valid}


def describe(template, args):
    a = [int(x) for x in args]
    def s64(v):
        v &= (1 << 64) - 1
        return v - (1 << 64) if v >> 63 else v
    base = BASES[a[1]][0] if 0 <= a[1] < 8 else {8: '*const u8', 9: 'Nope'}.get(a[1], 'f32')
    attrs = [x for x, f in (('defaultable', a[3]), ('copyable', a[4]), ('cloneable', a[5])) if f]
    if a[6]: attrs.append('singleton(%d)' % s64(a[7]))
    out = ['// pointer size %d' % a[0]]
    if attrs: out.append('#[%s]' % ', '.join(attrs))
    out.append('pub enum E: %s {' % base)
    for i in range(min(a[2], 8)):
        b = 8 + 3 * i
        if b + 3 > len(a): break
        out.append('    %s%s%s,' % ('#[default] ' if a[b + 2] else '', VARIANTS[i], ' = %d' % s64(a[b + 1]) if a[b] else ''))
    out.append('}')
    return '\n'.join(out)
