"""C16 — calling conventions are the declared ones, or the documented defaults."""
import z3
from ..check import Slice, Query
from ..summary import Item, items, is_ok, bv
from . import c05

ID = 'C16'


def all_vfuncs_have_receiver(summ):
    """pyxis accepts a virtual function without a receiver but the wrapper it emits for it (`self.vftable()` in a function
    without self) does not compile; such descriptions cannot be Engine B witnesses"""
    for m in summ[1]:
        for it in m[3]:
            inner = it[4][3] if it[4][0] == 'resolved' else None
            if inner and inner[0] == 'type' and inner[4]:
                for f in inner[4][0]:
                    if not (f[5] and isinstance(f[5][0], str)): return False
    return True

ENGINE_B = [{'template': 't_inherit', 'kinds': ['layout_'], 'max_quick': 8, 'max_thorough': 48, 'abi': True},
            {'template': 't_vft', 'kinds': ['layout_'], 'max_quick': 12, 'max_thorough': 64, 'abi': True, 'accept': lambda summ: all_vfuncs_have_receiver(summ)},
            {'template': 't_impl', 'kinds': ['addrcall_'], 'max_quick': 8, 'max_thorough': 32, 'abi': True},
            # two functions in one impl block whose default conventions differ (thiscall with a receiver, system without), the first one
            # internal (`_g0`, no wrapper emitted) or not
            {'template': 't_implname', 'kinds': ['addrcall_'], 'max_quick': 4, 'max_thorough': 4, 'abi': True,
             'fixed': [[8, 4096, 8192, 2, 0, 0, 0, 1, 0, 1], [8, 4096, 8192, 2, 0, 0, 0, 0, 2, 1], [8, 4096, 8192, 2, 0, 0, 0, 1, 0, 0], [8, 4096, 8192, 2, 0, 3, 4, 0, 1, 1]]}]
CC = c05.CC
EXPLANATION = ('Three templates are executed symbolically: t_impl (impl function), t_vft (vftable block incl. placeholder slots) and '
               't_inherit (the same virtual function seen through derived tables).  The calling-convention attribute ranges over '
               'absent, the seven supported names and an unknown name; receivers over none / &self / &mut self.  On accepted leaves '
               'the solver must refute that any occurrence of the function (associated function, vftable function, the '
               'function-pointer type of its slot in the generated vftable struct, the copies in derived tables) carries a convention '
               'other than the declared one or the default (thiscall with a receiver, system without), or that a placeholder slot is '
               'not thiscall; an unknown name must be rejected.')
ASSUMPTIONS = ['the ABI string token emitted by backends/rust.rs (extern "<cc>") is CallingConvention::as_str of the value checked here; '
               'the token emission itself is not executed']


def bounds(tier):
    return {'positions': ['impl function', 'vftable slot', 'placeholder slot', 'derived vftable (depth 1 and 2)'], 'pointer_size': [4, 8]}


def impl_assume(a, ps):
    f = a[4:12]
    return [a[0] == ps, a[1] == 1, z3.ULT(a[2], 1 << 20), a[3] == 0, z3.ULE(f[0], 2), f[1] == 0, f[2] == 0, f[3] == 0, f[4] == 0,
            z3.ULE(f[5], 1), z3.ULE(f[6], 8), f[7] == 1]


def vft_assume(a, ps):
    A = [a[0] == ps, a[1] == 2, a[2] == 0, a[3] == 0]
    for k in range(2):
        b = 4 + 10 * k
        f = a[b + 2:b + 10]
        A += [z3.ULE(a[b], 1), (z3.ULE(a[b + 1], 1) if k == 0 else a[b + 1] == 3)]
        A += [z3.ULE(f[0], 2), f[1] == 0, f[2] == 0, f[3] == 0, f[4] == 0, f[5] == 0, z3.ULE(f[6], 8), f[7] == 1]
    A.append(a[4 + 10 + 2 + 6] == 0)   # only the first function's convention varies; the second has the default
    return A


def inh_assume(a, ps):
    A = [a[0] == ps, a[1] == 1, z3.ULE(a[2], 1), z3.ULE(a[3], 1), z3.ULE(a[4], 1), z3.Or(a[5] == 0, a[5] == 5), z3.Implies(a[4] != 1, a[5] == 0),
         z3.ULE(a[6], 1), a[7] == 0, a[8] == 0, a[9] == 0, a[10] == 0, a[11] == 0, a[12] == 1, z3.ULE(a[13], 8), a[14] == 0, a[15] == 0, a[16] == 0]
    return A


def slices(tier, rng):
    out = []
    for ps in (4, 8):
        out.append(Slice('impl-ps%d' % ps, 't_impl', 12, lambda a, ps=ps: impl_assume(a, ps), opts={'must_reach': ['ok', 'err']}, ctx={'t': 'impl'}))
        out.append(Slice('vft-ps%d' % ps, 't_vft', 24, lambda a, ps=ps: vft_assume(a, ps), opts={'must_reach': ['ok', 'err']}, ctx={'t': 'vft'}))
        out.append(Slice('inherit-ps%d' % ps, 't_inherit', 17, lambda a, ps=ps: inh_assume(a, ps), opts={'must_reach': ['ok', 'err']}, ctx={'t': 'inh'}))
    return out


def cc_mismatch(actual, code, recv):
    """z3 condition: the convention string `actual` is not the one demanded by attribute code / receiver"""
    if actual not in CC: return z3.BoolVal(True)
    want = z3.If(code != 0, code - 1, z3.If(recv != 0, z3.BitVecVal(4, 64), z3.BitVecVal(6, 64)))
    return want != CC.index(actual)


def leaf_queries(I, a, leaf, py, sl):
    if leaf.kind != 'ret': return [Query('no-%s' % leaf.kind, z3.BoolVal(True))]
    t = sl.ctx['t']
    if t == 'impl':
        f = a[4:12]
        if not is_ok(py): return [Query('rejected-implies-unknown-convention', f[6] != 8)]
        T = Item(items(py)['m::T'])
        bad = [f[6] == 8]
        for fn in T.functions: bad.append(cc_mismatch(fn.cc, f[6], f[0]))
        if len(T.functions) != 1: bad.append(z3.BoolVal(True))
        return [Query('impl-function-convention', z3.Or(*bad))]
    if t == 'vft':
        codes = [a[4 + 10 * k + 2 + 6] for k in range(2)]
        recvs = [a[4 + 10 * k + 2] for k in range(2)]
        if not is_ok(py): return [Query('rejected-implies-unknown-convention', z3.And(codes[0] != 8, codes[1] != 8))]
        its = items(py)
        T = Item(its['m::T']); VT = Item(its['m::TVftable'])
        bad = [codes[0] == 8, codes[1] == 8]
        for fn, reg in zip(T.vftable['functions'], VT.regions):
            if fn.name in ('g0', 'g1'):
                k = int(fn.name[1])
                bad.append(cc_mismatch(fn.cc, codes[k], recvs[k]))
            elif fn.cc != 'thiscall':
                bad.append(z3.BoolVal(True))
            if reg.type[0] != 'fn' or reg.type[1] != fn.cc: bad.append(z3.BoolVal(True))
        if len(VT.regions) != len(T.vftable['functions']): bad.append(z3.BoolVal(True))
        return [Query('vftable-slot-conventions', z3.Or(*bad))]
    # inheritance: A::f0 carries convention a[13]; every table that contains f0 must agree
    code = a[13]
    # mutation 5: the derived block re-declares f0 as stdcall; that contradicts the base unless the base's f0 is stdcall too (code 3)
    contradict = z3.And(a[5] == 5, code != 3)
    if not is_ok(py): return [Query('rejected-implies-unknown-or-contradicting-convention', z3.And(code != 8, z3.Not(contradict)))]
    its = items(py)
    bad = [code == 8, contradict]
    one = z3.BitVecVal(1, 64)
    for path in ('m::A', 'm::D', 'm::DD'):
        if path not in its: continue
        it = Item(its[path])
        if it.vftable is None:
            bad.append(z3.BoolVal(True)); continue
        for fn in it.vftable['functions']:
            if fn.name == 'f0': bad.append(cc_mismatch(fn.cc, code, one))
            elif fn.cc != 'thiscall': bad.append(z3.BoolVal(True))
        # wrappers re-exposed from non-first bases are associated functions
        for fn in it.functions:
            if fn.name.endswith('f0') and fn.body[0] == 'field' and fn.body[1] == 'a': bad.append(cc_mismatch(fn.cc, code, one))
    for path in ('m::AVftable', 'm::DVftable'):
        if path in its:
            for r in Item(its[path]).regions:
                if r.name == 'f0' and (r.type[0] != 'fn' or CC.count(r.type[1]) == 0 or True):
                    bad.append(cc_mismatch(r.type[1], code, one))
    return [Query('inherited-conventions-agree', z3.Or(*bad))]


def region_env(a, sl): return {}


def describe(template, args):
    if template in ('t_impl', 't_implname'): return c05.describe(template, args)
    return '%s%s' % (template, [int(x) for x in args])
