"""C06 — a derived type's vftable extends its first base's vftable and shares its pointer."""
import z3
from ..check import Slice, Query
from ..summary import Item, items, is_ok, bv
from . import inherit_spec as IS

ID = 'C06'
# fixed witnesses: shapes that must always be among the sampled ones (second-level type with a second base that owns a
# shallower vftable pointer; inherited and own tables at both levels)
ENGINE_B = {'template': 't_inherit', 'kinds': ['accessor_', 'dispatch_', 'layout_'], 'max_quick': 12, 'max_thorough': 64,
            'fixed': [[8, 1, 1, 1, 0, 0, 1, 0, 0, 0, 0, 0, 1, 0, 0, 0, 1], [8, 1, 1, 1, 1, 0, 1, 0, 0, 0, 0, 0, 1, 0, 0, 0, 1],
                      [8, 0, 1, 1, 2, 0, 1, 0, 0, 0, 0, 0, 1, 0, 0, 0, 1],
                      # D repeats A's slots exactly and adds none (its own table type all the same); DD derives from it
                      [8, 1, 0, 0, 1, 9, 1, 0, 0, 0, 0, 0, 1, 0, 0, 0, 0], [8, 1, 1, 1, 1, 9, 0, 0, 0, 0, 0, 0, 1, 0, 0, 0, 0]]}
EXPLANATION = ('Template t_inherit (bases A and B each with or without a vftable block, derived D with one or two #[base] fields and no / a '
               'prefix-repeating / a non-repeating vftable block, one of eight single-slot mutations of the repeated prefix — rename, '
               'parameter type, return type, receiver mutability, calling convention, dropped slot, extra parameter, swapped slots — and '
               'a second-level derived DD) is executed symbolically through vftable::build and resolve_regions.  Every parameter is a '
               'finite choice; for each leaf the solver first shows that the path condition admits exactly one description, then the '
               'outcome is compared with the reference model of the property evaluated on that description: mutated prefixes and missing '
               'prefixes must be rejected; accepted derived types must share the first base\'s table pointer (no vftable field of their '
               'own, base_field = the first base, table type = the derived table), and a type that declares a table without an '
               'inheriting base must have exactly one private pointer-sized vftable field at offset 0.')
ASSUMPTIONS = ['the reference model (props/inherit_spec.py) is evaluated in Python on the single description each leaf covers; the solver\'s part is '
               'path feasibility and the uniqueness of that description',
               'the emitted vftable() accessor (backends/rust.rs) is not executed here']


def bounds(tier):
    return {'depth': 2, 'bases per type': '<= 2 (statement: up to 3)', 'mutations': '8 single-slot mutations + the exact repeat without an own function', 'pointer_size': [4, 8]}


def assume(a, ps, sub):
    A = [a[0] == ps] + [z3.ULE(a[i], 1) for i in (1, 2, 3, 6, 7, 8, 9, 10, 12)] + [z3.ULE(a[4], 2), z3.ULE(a[5], 9), z3.ULE(a[11], 2)]
    # canonical encodings of irrelevant parameters
    A.append(z3.Implies(a[4] != 1, a[5] == 0))
    A.append(z3.Implies(a[6] == 0, a[7] == 0))
    A.append(z3.Implies(a[8] == 0, a[12] == 1))
    A.append(z3.Implies(z3.And(a[9] == 0, a[10] == 0), a[11] == 0))
    A.append(z3.Implies(a[9] == 0, a[11] != 1))
    A.append(z3.Implies(a[10] == 0, a[11] != 2))
    A.append(z3.Implies(z3.And(a[1] == 0, z3.Or(a[4] != 1, a[5] == 5)), a[13] == 0))
    if sub == 'tables':
        A += [a[8] == 0, a[9] == 0, a[10] == 0, a[11] == 0, z3.Or(a[13] == 0, a[13] == 3, a[13] == 1), a[14] == 0, a[15] == 0, z3.ULE(a[16], 1), z3.Implies(a[6] == 0, a[16] == 0)]
    else:
        A += [a[5] == 0, a[13] == 0, a[7] == 0, z3.ULE(a[14], 1), z3.Implies(a[4] != 1, a[14] == 0), z3.ULE(a[15], 1), z3.Implies(a[3] == 0, a[15] == 0),
              z3.ULE(a[16], 1), z3.Implies(a[6] == 0, a[16] == 0), z3.Implies(a[16] != 0, a[14] == 0)]
    return A


def slices(tier, rng):
    return [Slice('tables-ps%d' % ps, 't_inherit', 17, lambda a, ps=ps: assume(a, ps, 'tables'), opts={'must_reach': ['ok', 'err']})
            for ps in (4, 8)]


def pinned(a, wit):
    """negation of: the path condition admits only the witness description"""
    return z3.Or(*[a[i] != z3.BitVecVal(wit[i], 64) for i in range(17)])


def fn_sig(f):
    return (f.name, f.args[0] if f.args and isinstance(f.args[0], str) else None,
            [(x[0], x[1][1]) for x in f.args if not isinstance(x, str)], f.ret[1] if f.ret else None, f.cc)


def compare_tables(py, M, out):
    its = items(py)
    for tn, exp in M['types'].items():
        path = 'm::' + tn
        if path not in its: out.append('%s missing' % path); continue
        it = Item(its[path])
        if not it.resolved: out.append('%s unresolved' % path); continue
        regs = [r.name for r in it.regions]
        if regs != exp['regions']: out.append('%s regions %s != %s' % (tn, regs, exp['regions']))
        if exp['table'] is None:
            if it.vftable is not None: out.append('%s has an unexpected vftable' % tn)
            continue
        if it.vftable is None: out.append('%s lost its vftable' % tn); continue
        got = [fn_sig(f) for f in it.vftable['functions']]
        want = [(f[0], f[1], f[2], f[3], f[4]) for f in exp['table']]
        if got != want: out.append('%s table %s != %s' % (tn, got, want))
        if it.vftable['base_field'] != exp['base_field']: out.append('%s base_field %s != %s' % (tn, it.vftable['base_field'], exp['base_field']))
        if it.vftable['type'] != ['const*', ['raw', exp['table_type']]]: out.append('%s table type %s' % (tn, it.vftable['type']))
        if exp['own_ptr']:
            r0 = it.regions[0]
            if r0.name != 'vftable' or r0.vis != 'priv' or r0.type != ['const*', ['raw', exp['table_type']]] or r0.size != M['ps']:
                out.append('%s vftable pointer field wrong: %s' % (tn, r0.raw))
        # the generated table struct
        if exp['table_type'] == 'm::%sVftable' % tn:
            if exp['table_type'] not in its: out.append('%s missing' % exp['table_type'])
            else:
                vt = Item(its[exp['table_type']])
                if [r.name for r in vt.regions] != [f[0] for f in exp['table']] or vt.size != M['ps'] * len(exp['table']) or vt.align != M['ps']:
                    out.append('%s struct wrong' % exp['table_type'])


def leaf_queries(I, a, leaf, py, sl):
    if leaf.kind != 'ret': return [Query('no-%s' % leaf.kind, z3.BoolVal(True))]
    wit = [I.model.eval(x, model_completion=True).as_long() for x in a] if I.model is not None else None
    if wit is None:
        if I.solver.check() != z3.sat: return [Query('leaf-feasible', z3.BoolVal(True))]
        m = I.solver.model(); wit = [m.eval(x, model_completion=True).as_long() for x in a]
    qs = [Query('leaf-covers-exactly-one-description', pinned(a, wit))]
    M = IS.model(IS.params(wit))
    if M is None: return qs
    M['ps'] = wit[0]
    from ..session import concretize_py
    py = concretize_py(py, I.model if I.model is not None else I.solver.model())
    problems = []
    if is_ok(py):
        if not M['accept']: problems.append('accepted although the reference rejects')
        else: compare_tables(py, M, problems)
    else:
        if M['accept']: problems.append('rejected although the reference accepts')
    this = z3.And(*[a[i] == z3.BitVecVal(wit[i], 64) for i in range(17)])
    qs.append(Query('outcome-matches-reference:' + ('; '.join(problems)[:200] if problems else 'ok'),
                    this if problems else z3.BoolVal(False)))
    return qs


def region_env(a, sl): return {}


def describe(template, args): return IS.describe(args)
