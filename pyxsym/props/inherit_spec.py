"""Reference model (plain Python, evaluated on one concrete description) of what t_inherit must produce.
Used by C06 and C07 on leaves whose path condition the solver has shown to admit exactly one description."""

CC = ['C', 'cdecl', 'stdcall', 'fastcall', 'thiscall', 'vectorcall', 'system', 'bogus']


def base_fns(cc_code):
    """the two virtual functions of a base block: (name, receiver, params, ret, cc)"""
    cc = CC[cc_code - 1] if cc_code else 'thiscall'
    return [('f0', '&self', [('x', 'u32')], 'u32', cc), ('f1', '&mut self', [], None, 'thiscall')]


def d_block_fns(p):
    mu = p['mutation']
    cc = 'stdcall' if mu == 5 else (CC[p['cc'] - 1] if p['cc'] else 'thiscall')
    params = [('x', 'u64' if mu == 2 else 'u32')] + ([('y', 'u32')] if mu == 7 else [])
    d0 = ('f0x' if mu == 1 else 'f0', '&mut self' if mu == 4 else '&self', params, None if mu == 3 else 'u32', cc)
    f1 = ('f1', '&mut self', [], None, 'thiscall')
    h = ('k', '&self', [], None, 'thiscall') if p.get('d_priv_k') else ('h', '&self', [], None, 'thiscall')
    if mu == 6: return [d0]
    if mu == 8: return [f1, d0, h]
    if mu == 9: return [d0, f1]
    return [d0, f1, h]


def model(p):
    """p: dict of the 14 template parameters.  Returns None when the description is outside the modelled family,
    else {'accept': bool, 'types': {name: {...}}}"""
    if p['cc'] == 8: return {'accept': False}
    out = {}
    word = 'u64' if p['ps'] == 8 else 'u32'
    A_tab = base_fns(p['cc']) if p['a_vft'] else None
    B_tab = base_fns(0) if p['b_vft'] else None
    out['A'] = {'table': A_tab, 'base_field': None, 'own_ptr': bool(A_tab), 'table_type': 'm::AVftable' if A_tab else None,
                'assoc': [('k', ('address', 0x100), 'pub' if p['a_fn_vis'] else 'priv')] if p['a_impl'] else []}
    nb = 'k' if p['clash'] else 'kb'
    out['B'] = {'table': B_tab, 'base_field': None, 'own_ptr': bool(B_tab), 'table_type': 'm::BVftable' if B_tab else None,
                'assoc': [(nb, ('address', 0x200), 'pub')] if p['b_impl'] else []}
    # ---- D
    blk = d_block_fns(p) if p['d_block'] == 1 else ([('h', '&self', [], None, 'thiscall')] if p['d_block'] == 2 else None)
    if A_tab:
        if blk is None:
            D = {'table': A_tab, 'base_field': 'a', 'own_ptr': False, 'table_type': 'm::AVftable'}
        else:
            if len(blk) < len(A_tab) or any(x != y for x, y in zip(A_tab, blk)): return {'accept': False}
            D = {'table': blk, 'base_field': 'a', 'own_ptr': False, 'table_type': 'm::DVftable'}
    else:
        if blk is None: D = {'table': None, 'base_field': None, 'own_ptr': False, 'table_type': None}
        else: D = {'table': blk, 'base_field': None, 'own_ptr': True, 'table_type': 'm::DVftable'}
    used = set(f[0] for f in D['table']) if D['table'] else set()
    assoc = []
    def add(field, fns):
        for (name, body, vis) in fns:
            if vis != 'pub': continue
            new = name if name not in used else '%s_%s' % (field, name)
            used.add(new)
            assoc.append((new, ('field', field, name), 'pub'))
    add('a', out['A']['assoc'])
    second = 'A' if p.get('b_is_a') else 'B'
    second_tab = A_tab if p.get('b_is_a') else B_tab
    if p['two_bases']:
        add('b', out[second]['assoc'])
        if second_tab: add('b', [(f[0], None, 'pub') for f in second_tab])
    if p['d_impl']:
        dn = 'k' if p['clash'] == 2 else 'kd'
        if dn in used: return {'accept': False}       # an impl function whose name is already taken is an error
        used.add(dn); assoc.append((dn, ('address', 0x300), 'pub'))
    D['assoc'] = assoc
    D['regions'] = (['vftable'] if D['own_ptr'] else []) + ['a'] + (['b'] if p['two_bases'] else []) + ['dx']
    D['base_types'] = ['A'] + ([second] if p['two_bases'] else [])
    out['D'] = D
    # ---- DD
    if p['dd_present']:
        if D['table']:
            if p['dd_block']:
                return {'accept': False}     # DD's block {hh} never repeats D's first slot
            DD = {'table': D['table'], 'base_field': 'd', 'own_ptr': False, 'table_type': D['table_type']}
        else:
            if p['dd_block']: DD = {'table': [('hh', '&self', [], None, 'thiscall')], 'base_field': None, 'own_ptr': True, 'table_type': 'm::DDVftable'}
            else: DD = {'table': None, 'base_field': None, 'own_ptr': False, 'table_type': None}
        used = set(f[0] for f in DD['table']) if DD['table'] else set()
        assoc = []
        def add2(field, fns):
            for (name, body, vis) in fns:
                if vis != 'pub': continue
                new = name if name not in used else '%s_%s' % (field, name)
                used.add(new); assoc.append((new, ('field', field, name), 'pub'))
        add2('d', D['assoc'])
        if p.get('dd_two'):
            add2('b2', out['B']['assoc'])
            if B_tab: add2('b2', [(f[0], None, 'pub') for f in B_tab])
        DD['assoc'] = assoc
        DD['regions'] = (['vftable'] if DD['own_ptr'] else []) + ['d'] + (['b2'] if p.get('dd_two') else []) + ['ddx']
        out['DD'] = DD
    out['A']['regions'] = (['vftable'] if A_tab else []) + ['ax']
    out['B']['regions'] = (['vftable'] if B_tab else []) + ['bx']
    return {'accept': True, 'types': out, 'word': word}


NAMES = ['ps', 'a_vft', 'b_vft', 'two_bases', 'd_block', 'mutation', 'dd_present', 'dd_block', 'a_impl', 'b_impl', 'd_impl', 'clash',
         'a_fn_vis', 'cc', 'd_priv_k', 'b_is_a', 'dd_two']


def params(args):
    d = dict(zip(NAMES, [int(x) for x in args[:17]]))
    for k in ('d_priv_k', 'b_is_a', 'dd_two'): d.setdefault(k, 0)
    return d


def describe(args):
    p = params(args)
    word = 'u64' if p['ps'] == 8 else 'u32'
    cc = lambda c: ('#[calling_convention("%s")] ' % CC[c - 1]) if c else ''
    blk = lambda fns: 'vftable { ' + ' '.join('%spub fn %s(%s)%s;' % (
        '' if f[4] == 'thiscall' else '#[calling_convention("%s")] ' % f[4], f[0], ', '.join([f[1]] + ['%s: %s' % x for x in f[2]]), ' -> ' + f[3] if f[3] else '') for f in fns) + ' }, '
    out = ['// pointer size %d' % p['ps']]
    out.append('pub type A { %spub ax: %s }' % (blk(base_fns(p['cc'])) if p['a_vft'] else '', word))
    out.append('pub type B { %spub bx: %s }' % (blk(base_fns(0)) if p['b_vft'] else '', word))
    dblk = blk(d_block_fns(p)) if p['d_block'] == 1 else (blk([('h', '&self', [], None, 'thiscall')]) if p['d_block'] == 2 else '')
    out.append('pub type D { %s#[base] pub a: A, %spub dx: %s }' % (dblk, ('#[base] pub b: %s, ' % ('A' if p.get('b_is_a') else 'B')) if p['two_bases'] else '', word))
    if p['dd_present']:
        out.append('pub type DD { %s#[base] pub d: D, %spub ddx: %s }' % (blk([('hh', '&self', [], None, 'thiscall')]) if p['dd_block'] else '', '#[base] pub b2: B, ' if p.get('dd_two') else '', word))
    if p['a_impl']: out.append('impl A { #[address(0x100)] %sfn k(&self); }' % ('pub ' if p['a_fn_vis'] else ''))
    if p['b_impl']: out.append('impl B { #[address(0x200)] pub fn %s(&self); }' % ('k' if p['clash'] else 'kb'))
    if p['d_impl']: out.append('impl D { #[address(0x300)] pub fn %s(&self); }' % ('k' if p['clash'] == 2 else 'kd'))
    return '\n'.join(out)
