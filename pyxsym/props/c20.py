"""C20 — equivalent descriptions produce identical bindings."""
import z3
from ..check import Slice, Query
from ..relational import differs, as_z3, is_ok, is_err, pair_same_outcome

ID = 'C20'
# Engine B on the rewritten description's emitted code (incl. a #[base] field that is not the first field)
ENGINE_B = {'template': 't_equiv', 'kinds': ['layout_', 'accessor_', 'dispatch_'], 'max_quick': 10, 'max_thorough': 48, 'pair_bytes': True,
            'fixed': [[8, 8, 16, 8, 8, 0, 0, 0, 1, 0, 0, 0, 0, 0, 1, 0, 0, 0], [8, 8, 16, 8, 16, 0, 0, 0, 0, 1, 0, 0, 1, 0, 1, 0, 0, 0], [8, 8, 8, 8, 16, 0, 0, 0, 1, 0, 0, 0, 0, 0, 0, 0, 0, 1]]}
EXPLANATION = ('Product template t_equiv builds a description and a rewritten description in one symbolic run: two extern-typed fields with '
               'symbolic sizes and a symbolic gap between them, an optional vftable block, and an enum with a symbolic first value.  The '
               'rewrites, each switched by its own flag and applied singly and in every combination: explicit #[address] equal to the '
               'implicit offset on the first / second field; the gap written as `_: unknown<g>` versus an #[address] on the following '
               'field; #[size] equal to the natural size; #[index] equal to the implicit slot; an enum value written out equal to the '
               'implicit one; the module\'s definitions listed in the opposite order.  On every leaf the solver must refute that one '
               'description is accepted and the other rejected, or that both are accepted with different summaries — generated '
               '`_field_<hex offset>` names are compared as symbolic strings.')
ASSUMPTIONS = ['for all descriptions of the family the solver decides identity of the semantic summaries (everything the backend is meant to read); identity of the '
               'emitted bytes is compared natively, with the real backend, for the sampled witness pairs only (Engine B phase) — a backend that consults '
               'something outside the summary (e.g. the retained grammar tree) is caught only on those pairs',
               'spelling a number in another base is a parser matter and outside this check']


def bounds(tier):
    return {'sizes/gap': '< 2^10', 'alignment': '{1, 2, 4, 8}', 'rewrites': 7, 'pointer_size': [4, 8]}


def assume(a, ps, vft, base_mode=0, packed=0):
    A = [a[0] == ps, a[6] == vft, a[14] == base_mode, a[15] == packed, z3.ULE(a[16], 2), z3.Implies(a[8] == 0, a[16] == 0),
         z3.ULE(a[17], 1), z3.Implies(a[17] != 0, z3.And(a[8] != 0, a[16] == 0, z3.UGE(a[4], 2)))]
    if base_mode: A += [a[7] == 0, a[10] == 0, z3.URem(a[4], a[0]) == 0, z3.URem(a[2], a[0]) == 0, a[3] == ps]
    A += [z3.ULT(a[1], 1 << 10), z3.UGE(a[1], 1), z3.ULT(a[2], 1 << 10), z3.UGE(a[2], 1), z3.ULT(a[4], 1 << 10)]
    A.append(z3.Or(*[a[3] == x for x in (1, 2, 4, 8)]))
    A += [a[5] >= -(1 << 31), a[5] < (1 << 31) - 4]
    for i in range(7, 14): A.append(z3.ULE(a[i], 1))
    if not vft: A.append(a[10] == 0)
    A.append(z3.Implies(a[8] != 0, a[13] == 0))     # r_addr1 only applies to the first description's f1 when the gap is unknown<g> ...
    return A


def slices(tier, rng):
    out = []
    for ps in (4, 8):
        for vft in (0, 1):
            if tier == 'quick' and ((ps == 8 and vft == 0) or (ps == 4 and vft == 1)): continue
            out.append(Slice('equiv-ps%d-vft%d' % (ps, vft), 't_equiv', 18, lambda a, ps=ps, vft=vft: assume(a, ps, vft),
                             opts={'summarize': ['gcd'], 'must_reach': ['ok/ok']}))
        # packed type: fields may sit at offsets that are not multiples of their alignment
        out.append(Slice('equiv-packed-ps%d' % ps, 't_equiv', 18, lambda a, ps=ps: assume(a, ps, 0, 0, 1),
                         opts={'summarize': ['gcd'], 'must_reach': ['ok/ok']}))
        # packed type with a leading u8: the extern-typed fields sit at misaligned offsets, and explicit addresses / unknown<g> / #[size]
        # follow a misaligned field
        out.append(Slice('equiv-packed-misaligned-ps%d' % ps, 't_equiv', 18, lambda a, ps=ps: assume(a, ps, 0, 0, 2),
                         opts={'summarize': ['gcd'], 'must_reach': ['ok/ok']}))
        # the field after the gap is a #[base] whose type has a vftable (the derived type shares it)
        out.append(Slice('equiv-base-ps%d' % ps, 't_equiv', 18, lambda a, ps=ps: assume(a, ps, 0, 1),
                         opts={'summarize': ['gcd'], 'must_reach': ['ok/ok']}))
    return out


def leaf_queries(I, a, leaf, py, sl):
    if leaf.kind != 'ret': return [Query('no-%s' % leaf.kind, z3.BoolVal(True))]
    o1, o2 = py[0], py[1]
    if is_err(o1) and is_err(o2): return []
    if is_ok(o1) != is_ok(o2): return [Query('equivalent-descriptions-are-both-accepted-or-both-rejected', z3.BoolVal(True))]
    return [Query('equivalent-descriptions-give-identical-bindings', as_z3(differs(o1, o2)))]


def same_outcome(native, expected): return pair_same_outcome(native, expected)


def region_env(a, sl): return {}


def describe(template, args):
    a = [int(x) for x in args]
    names = ['r_addr0', 'r_gap', 'r_size', 'r_index', 'r_enum', 'r_order', 'r_addr1']
    return ('// pointer size %d; X0 size %d, X1 size %d, alignment %d, gap %d, enum first value %d, vftable %s\n// rewrites applied to the second '
            'description: %s') % (a[0], a[1], a[2], a[3], a[4], a[5] - (1 << 64) if a[5] >> 63 else a[5], bool(a[6]),
                                  ', '.join(n for n, f in zip(names, a[7:14]) if f) or 'none') + (
        '' if len(a) < 18 or not a[17] else '\n// the gap is two adjacent unknown<..> fields in the first description; the second keeps the first and reaches f1 by its address') + (
        '' if len(a) < 17 or not a[16] else '\n// the gap in the first description is written %s' % ('`pub _: unknown<g>`' if a[16] == 1 else 'with a doc comment'))
