"""C02 — resolved size and alignment equal the compiler's for every emitted type."""
import z3
from ..check import Slice, Query
from ..summary import Item, items, is_ok, bv

ID = 'C02'
# fixed witnesses: an over-aligned single-field inner type embedded by value and as array element; a packed inner type
ENGINE_B = {'template': 't_nest', 'kinds': ['layout_', 'enum_'], 'max_quick': 12, 'max_thorough': 64,
            'fixed': [[8, 4, 4, 4, 0, 0, 1, 16, 0, 0, 1, 2, 0, 0, 12, 0, 0, 1, 16, 0], [8, 4, 4, 4, 0, 0, 1, 16, 0, 3, 2, 2, 0, 0, 12, 0, 0, 1, 16, 0],
                      [8, 2, 2, 3, 0, 0, 0, 0, 1, 0, 1, 1, 0, 0, 0, 0, 0, 0, 0, 0]]}
BASES = [('u8', 1), ('u16', 2), ('u32', 4), ('u64', 8), ('i8', 1), ('i16', 2), ('i32', 4), ('i64', 8)]
EXPLANATION = ('Template t_nest: an extern type X with symbolic size/alignment, an inner type I { x: [X; ci] } with optional size/align/'
               'packed, an enum over every integer base, and an outer type O { f0: I | [I; co] | *const I, e: En, _: unknown<pad> } '
               'with optional address/size/align, declared before I.  All numerics are symbolic.  On every accepted leaf the solver '
               'must refute that any resolved size or alignment differs from what rustc computes for the emitted repr(C) item: '
               'I = declared size else elem*count, alignment = declared / packed => 1 / default rule; enum = size and alignment '
               'of its base; the size and alignment pyxis used for I inside O (by value and as array element) equal I\'s own resolved '
               'values; O\'s size = sum of its regions, a multiple of its alignment, every region at an offset that is a multiple of '
               'its alignment, alignment a power of two not below any region\'s (so the compiler adds no padding and size_of/'
               'align_of are the resolved numbers); declared #[size]/#[align] are the resolved ones.  The single-type cases and the '
               'predefined table are covered by C01 (same engine); generated vftable structs by C04.')
ASSUMPTIONS = ['rustc lays out #[repr(C)] / #[repr(C, packed)] / #[repr(C, align(N))] structs and #[repr(int)] enums by the documented rules; '
               'that is the reference, it is not re-measured with a compiler in this check',
               'extern type X: alignment a power of two <= 8, size a small multiple of it']


def bounds(tier):
    return {'numeric': 'counts, pads, sizes < 2^6 (quick) / 2^8', 'types': 'extern + inner + enum + outer', 'pointer_size': [4, 8]}


def assume(a, ps, vmax, kinds, tier='thorough', zero=False):
    A = [a[0] == ps]
    if tier == 'quick' or ps == 8:
        # the inner type's own attributes are exercised by C01/C03; keep size/packed, drop the align attribute here
        # (thorough: everything free at pointer size 4; at pointer size 8 the quick restriction with the wider numeric range)
        A += [a[6] == 0, z3.ULE(a[11], 3) if ps == 4 else z3.UGE(a[11], 4)]
    A.append(z3.Or(*[z3.And(a[2] == al, z3.Or(*[a[1] == al * m for m in (1, 2, 3)])) for al in (1, 2, 4, 8)]))
    A += [z3.ULT(a[3], vmax)] + ([z3.UGE(a[3], 1)] if not zero else [])
    for i in (4, 6, 8, 12, 15, 17): A.append(z3.ULE(a[i], 1))
    A += [z3.ULT(a[5], vmax * 4), z3.ULE(a[7], 32), z3.ULT(a[13], vmax * 8), z3.ULT(a[16], vmax * 8), z3.ULE(a[18], 32), z3.ULT(a[14], vmax)]
    A.append(z3.Or(*[a[9] == k for k in kinds]))
    A += [z3.ULT(a[10], 5), z3.ULE(a[11], 7)] + ([z3.UGE(a[10], 1)] if not zero else [z3.Or(a[3] == 0, a[10] == 0)])
    A.append(z3.Implies(a[9] != 3, a[10] == (0 if zero else 1)))
    A.append(z3.ULE(a[19], 1) if zero else a[19] == 0)
    return A


def slices(tier, rng):
    vmax = 1 << (4 if tier == 'quick' else 7)
    out = []
    for ps in (4, 8):
        # quick: by-value and array embedding at one width each; thorough: everything at both widths
        kinds = [0, 1, 3] if tier != 'quick' else ([0, 3] if ps == 4 else [0, 1])
        out.append(Slice('nest-ps%d' % ps, 't_nest', 20, lambda a, ps=ps, kinds=kinds: assume(a, ps, vmax, kinds, tier),
                         opts={'summarize': ['gcd'], 'must_reach': ['ok', 'err']}))
    # zero-length arrays (a named [X; 0] or [I; 0] is a zero-sized field that still has its element's alignment)
    for ps in ((8,) if tier == 'quick' else (4, 8)):
        out.append(Slice('nest-zero-ps%d' % ps, 't_nest', 20, lambda a, ps=ps: assume(a, ps, 1 << 3, [0, 3], tier, zero=True) + [a[4] == 0, a[8] == 0],
                         opts={'summarize': ['gcd'], 'must_reach': ['ok', 'err']}))
    return out


def pow2(x): return z3.And(x != 0, (x & (x - 1)) == 0)


def leaf_queries(I, a, leaf, py, sl):
    if leaf.kind != 'ret': return [Query('no-%s' % leaf.kind, z3.BoolVal(True))]
    if not is_ok(py): return []
    its = items(py)
    bad = []
    for nm in ('m::I', 'm::O', 'm::En', 'm::X'):
        if nm not in its or not Item(its[nm]).resolved: return [Query('all-items-resolved', z3.BoolVal(True))]
    X = Item(its['m::X']); In = Item(its['m::I']); O = Item(its['m::O']); En = Item(its['m::En'])
    ps = a[0]
    # extern type: declared numbers
    bad += [bv(X.size) != a[1], bv(X.align) != a[2]]
    # inner type
    natural = a[1] * a[3]
    bad.append(bv(In.size) != z3.If(a[4] != 0, a[5], natural))
    padded = z3.And(a[4] != 0, z3.UGT(a[5], natural))
    ialign = z3.If(a[8] != 0, z3.BitVecVal(1, 64), z3.If(a[6] != 0, a[7], z3.If(padded, ps, a[2])))
    bad.append(bv(In.align) != ialign)
    # enum: size and alignment of the base
    for i, (nm, sz) in enumerate(BASES):
        bad.append(z3.And(a[11] == i, z3.Or(bv(En.size) != sz, bv(En.align) != sz)))
    # outer type: regions use the resolved numbers of the embedded items, and the compiler adds no padding
    off = z3.BitVecVal(0, 64)
    oal = bv(O.align)
    seen_e = False
    for r in O.regions:
        rs = bv(r.size); ra = bv(r.align)
        if r.name == 'f0':
            bad.append(z3.And(a[9] == 0, z3.Or(rs != bv(In.size), ra != bv(In.align))))
            bad.append(z3.And(a[9] == 1, z3.Or(rs != ps, ra != ps)))
            bad.append(z3.And(a[9] == 3, z3.Or(rs != bv(In.size) * a[10], ra != bv(In.align))))
        elif r.name == 'e':
            seen_e = True
            bad += [rs != bv(En.size), ra != bv(En.align)]
            bad.append(z3.And(a[12] != 0, off != a[13]))
        bad.append(z3.Or(ra == 0, z3.URem(off, ra) != 0))
        bad.append(z3.UGT(ra, oal))
        off = off + rs
    if not seen_e: bad.append(z3.BoolVal(True))
    bad.append(off != bv(O.size))
    bad.append(z3.Not(pow2(oal)))
    bad.append(z3.URem(bv(O.size), oal) != 0)
    bad.append(z3.And(a[15] != 0, bv(O.size) != a[16]))
    bad.append(z3.And(a[17] != 0, oal != a[18]))
    bad.append(z3.And(a[8] == 0, z3.Not(pow2(bv(In.align)))))
    bad.append(z3.And(a[8] == 0, z3.URem(bv(In.size), bv(In.align)) != 0))
    return [Query('resolved-sizes-and-alignments-are-the-compilers', z3.Or(*bad))]


def region_env(a, sl): return {}


def describe(template, args):
    a = [int(x) for x in args]
    ia = [x for x in ('size(%d)' % a[5] if a[4] else '', 'align(%d)' % a[7] if a[6] else '', 'packed' if a[8] else '') if x]
    oa = [x for x in ('size(%d)' % a[16] if a[15] else '', 'align(%d)' % a[18] if a[17] else '') if x]
    f0 = {0: 'I', 1: '*const I'}.get(a[9], '[I; %d]' % a[10])
    return ('// pointer size %d\n#[size(%d), align(%d)] extern type X;\n%spub type O { pub f0: %s, %spub e: En, _: unknown<%d> }\n'
            '%spub type I { pub x: [X; %d] }\npub enum En: %s { A, B }') % (
        a[0], a[1], a[2], '#[%s] ' % ', '.join(oa) if oa else '', f0, '#[address(%d)] ' % a[13] if a[12] else '', a[14],
        '#[%s] ' % ', '.join(ia) if ia else '', a[3], BASES[a[11] % 8][0])
