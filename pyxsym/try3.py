import sys, time, collections
import z3
from pyxsym.session import *
import pyxsym.interp as ip
S = Session(); I = S.interp()
N=1
a = sym_args(7+8*N)
A = [a[0]==4, a[1]==N]
for i in range(7+8*N):
    if i not in (0,1): A.append(z3.ULT(a[i], 1<<16))
for i in range(N):
    b=7+8*i
    A += [z3.ULE(a[b],5), a[b+1]==13, z3.UGE(a[b+5],1), z3.UGE(a[b+2],1)]
I.assumptions = A
slow=[]
orig = z3.Solver.check
def chk(self,*args):
    t=time.time(); r=orig(self,*args); d=time.time()-t
    slow.append((d, str(args[0])[:200] if args else '', I.stack[-1] if I.stack else ''))
    return r
z3.Solver.check = chk
leaves=[]
work=[[]]
t=time.time()
while work and len(leaves)<150:
    leaf,p = I.run_path('t_layout',[args_value(a)],work.pop()); work.extend(p); leaves.append(leaf)
print(len(leaves), time.time()-t, 'checks', len(slow), 'solver', sum(s[0] for s in slow))
slow.sort(reverse=True)
for s in slow[:15]: print(round(s[0],3), s[2][-50:], s[1][:120].replace('\n',' '))
by=collections.Counter()
for d,c,f in slow: by[f[-60:]]+=d
print(by.most_common(8))
