import sys, faulthandler, random
faulthandler.dump_traceback_later(60, exit=True)
from pyxsym.session import *
from pyxsym.props import c05
S = Session()
sl = c05.slices('quick', random.Random(0))[0]
a = sym_args(sl.nparams); I = S.interp(assumptions=sl.assume(a))
work=[{}]; n=0
while work:
    leaf,p = I.run_path(sl.template,[args_value(a)],work.pop()); work.extend(p); n+=1
    if n%50==0: print(n, len(work), leaf.kind, leaf.steps, flush=True)
print('done',n)
