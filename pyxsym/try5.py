import sys, time, collections, faulthandler
import z3
from pyxsym.session import *
faulthandler.dump_traceback_later(400, exit=True)
S = Session(); I = S.interp()
N=1
a = sym_args(7+8*N)
A = [a[0]==4, a[1]==N]
for i in range(7+8*N):
    if i not in (0,1): A.append(z3.ULT(a[i], 1<<16))
for i in range(N):
    b=7+8*i
    A += [z3.ULE(a[b],5), a[b+1]==13, z3.UGE(a[b+5],1), z3.UGE(a[b+2],1), z3.ULE(a[b+6],16)]
A.append(z3.ULE(a[5],32))
I.assumptions = A; I.summarize={"gcd"}
I.fork_sites={}
work=[[]]; n=0; t=time.time()
while work:
    d=work.pop()
    leaf,p=I.run_path('t_layout',[args_value(a)],d); work.extend(p); n+=1
    if n%20==0: print(n, len(work), round(time.time()-t,1), leaf.kind, flush=True)
print('done', n, time.time()-t)

for k,v in sorted(I.fork_sites.items(), key=lambda x:-x[1]): print(v,k[-90:])
