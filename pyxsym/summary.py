"""Accessors for the structural summary (`Val` converted by session.val_to_py) that templates return.
Layout of the summary is defined by harness/templates.rs."""
import z3
from .values import SymStr


def is_ok(py): return isinstance(py, list) and py and py[0] == 'ok'
def is_err(py): return isinstance(py, list) and py and py[0] == 'err'


def modules(py):
    return {m[1]: m for m in py[1]}


def items(py):
    out = {}
    for m in py[1]:
        for it in m[3]:
            out[it[1]] = it
    return out


class Item:
    def __init__(self, it):
        self.raw = it
        self.path = it[1]; self.vis = it[2]; self.category = it[3]
        st = it[4]
        self.resolved = st[0] == 'resolved'
        if self.resolved:
            self.size = st[1]; self.align = st[2]; inner = st[3]
            self.kind = inner[0]
            if self.kind == 'type':
                self.regions = [Region(r) for r in inner[1]]
                self.doc = inner[2]
                self.functions = [Function(f) for f in inner[3]]
                self.vftable = None
                if inner[4] is not None:
                    self.vftable = {'functions': [Function(f) for f in inner[4][0]], 'base_field': inner[4][1], 'type': inner[4][2]}
                self.singleton = inner[5]
                self.copyable, self.cloneable, self.defaultable, self.packed = inner[6:10]
            else:
                self.type = inner[1]; self.doc = inner[2]
                self.fields = [(f[0], f[1]) for f in inner[3]]
                self.singleton = inner[4]
                self.copyable, self.cloneable, self.defaultable = inner[5:8]
                self.default_index = inner[8]


class Region:
    def __init__(self, r):
        self.raw = r
        self.vis, self.name, self.doc, self.type, self.is_base, self.size, self.align = r[1:8]


class Function:
    def __init__(self, f):
        self.raw = f
        self.vis, self.name, self.doc, self.body, self.args, self.ret, self.cc = f[1:8]


def bv(x, w=64):
    if isinstance(x, z3.ExprRef): return x
    return z3.BitVecVal(x, w)


def name_eq(name, s):
    """condition under which a (possibly symbolic) summary string equals the concrete string s"""
    if isinstance(name, SymStr):
        from .models import Models
        return Models.symstr_eq(None, name, s)
    return name == s
