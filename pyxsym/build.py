"""Regenerates, from /repo's current working tree, everything a check needs:
  * pyxis.mir     nightly `-Zunpretty=mir` of a scratch copy with the template module appended
  * pyxis.json    rustdoc JSON of the same copy (ADT/impl tables for the interpreter)
  * verif_replay  the native replay binary (stable toolchain, --cfg pyxis_verif)
The result is keyed by a hash of every input (repo sources, harness, toolchains) and kept in a scratch directory
outside /repo and /verif; any change to an input rebuilds it."""
import os, sys, hashlib, subprocess, shutil, fcntl, time, json

VERIF = os.path.dirname(os.path.dirname(os.path.abspath(__file__)))
REPO = os.environ.get('VERIF_REPO', '/repo')
SCRATCH_ROOT = os.environ.get('VERIF_SCRATCH', '/var/tmp/pyxis-verif')
CACHE = os.path.join(os.environ.get('VERIF_CACHE', '/verif/.cache'))
ENV = dict(os.environ, CARGO_NET_OFFLINE='true')


def tree_hash():
    h = hashlib.sha256()
    files = []
    for root, dirs, fs in os.walk(REPO):
        dirs[:] = sorted(d for d in dirs if d not in ('target', '.git', 'codegen_tests', 'examples', 'layout'))
        for f in sorted(fs):
            files.append(os.path.join(root, f))
    for p in files + [os.path.join(VERIF, 'harness', 'templates.rs'), os.path.join(VERIF, 'harness', 'replay_main.rs'),
                      os.path.abspath(__file__)]:
        try:
            data = open(p, 'rb').read()
        except OSError:
            continue
        h.update(p.encode()); h.update(b'\0'); h.update(data); h.update(b'\0')
    h.update(VERIF.encode())
    return h.hexdigest()[:20]


def run(cmd, cwd, env, log):
    t = time.time()
    p = subprocess.run(cmd, cwd=cwd, env=env, stdout=subprocess.PIPE, stderr=subprocess.PIPE)
    log.append({'cmd': ' '.join(cmd), 'rc': p.returncode, 's': round(time.time() - t, 1)})
    return p


class BuildError(Exception):
    pass


def prepare(verbose=False):
    key = tree_hash()
    os.makedirs(SCRATCH_ROOT, exist_ok=True)
    d = os.path.join(SCRATCH_ROOT, key)
    lock = open(os.path.join(SCRATCH_ROOT, 'lock'), 'w')
    fcntl.flock(lock, fcntl.LOCK_EX)
    try:
        if os.path.exists(os.path.join(d, 'done')):
            return info(d, key, cached=True)
        # drop stale builds (keep disk use bounded)
        olds = []
        for old in os.listdir(SCRATCH_ROOT):
            p = os.path.join(SCRATCH_ROOT, old)
            if os.path.isdir(p) and old != key and old != 'kani':
                if _in_use(p): continue          # a check that is still running (e.g. a long thorough run) works from this build
                try: olds.append((os.path.getmtime(p), p))
                except OSError: pass
        olds.sort(reverse=True)
        for i, (mt, p) in enumerate(olds):
            # another check may be running against a different tree state: only drop builds that are old or too many
            if i >= 5 or time.time() - mt > 3 * 3600: shutil.rmtree(p, ignore_errors=True)
        shutil.rmtree(d, ignore_errors=True)
        os.makedirs(d)
        copy = os.path.join(d, 'copy')
        log = []
        p = run(['rsync', '-a', '--exclude', 'target', '--exclude', '.git', REPO + '/', copy + '/'], '/', ENV, log)
        if p.returncode: raise BuildError('rsync failed: ' + p.stderr.decode()[-2000:])
        orig = open(os.path.join(copy, 'src', 'lib.rs')).read()
        with open(os.path.join(copy, 'src', 'lib.rs'), 'a') as fh:
            fh.write('\n#[path = "%s/harness/templates.rs"]\npub mod verif_templates;\n' % VERIF)
        os.makedirs(os.path.join(copy, 'src', 'bin'), exist_ok=True)
        shutil.copy(os.path.join(VERIF, 'harness', 'replay_main.rs'), os.path.join(copy, 'src', 'bin', 'verif_replay.rs'))
        # 1. MIR
        env = dict(ENV, CARGO_TARGET_DIR=os.path.join(CACHE, 'target-mir'))
        p = run(['cargo', '+nightly', 'rustc', '--offline', '--lib', '--', '-Zunpretty=mir', '-C', 'overflow-checks=on',
                 '-C', 'debug-assertions=off', '-Awarnings'], copy, env, log)
        if p.returncode or len(p.stdout) < 1000:
            raise BuildError('MIR dump failed:\n' + p.stderr.decode()[-4000:])
        open(os.path.join(d, 'pyxis.mir'), 'wb').write(p.stdout)
        # 2. rustdoc JSON
        p = run(['cargo', '+nightly', 'rustdoc', '--offline', '--lib', '--', '-Zunstable-options', '--output-format', 'json',
                 '--document-private-items', '-Awarnings'], copy, env, log)
        if p.returncode: raise BuildError('rustdoc JSON failed:\n' + p.stderr.decode()[-4000:])
        shutil.copy(os.path.join(CACHE, 'target-mir', 'doc', 'pyxis.json'), os.path.join(d, 'pyxis.json'))
        # 3. native replay binary, hooks enabled
        env = dict(ENV, CARGO_TARGET_DIR=os.path.join(CACHE, 'target-native'),
                   RUSTFLAGS=(ENV.get('RUSTFLAGS', '') + ' --cfg pyxis_verif -Awarnings').strip())
        p = run(['cargo', 'build', '--offline', '--bin', 'verif_replay'], copy, env, log)
        if p.returncode: raise BuildError('native replay build failed:\n' + p.stderr.decode()[-4000:])
        shutil.copy(os.path.join(CACHE, 'target-native', 'debug', 'verif_replay'), os.path.join(d, 'verif_replay'))
        json.dump({'key': key, 'log': log, 'at': time.time()}, open(os.path.join(d, 'done'), 'w'))
        if verbose: print('built', d, log, file=sys.stderr)
        return info(d, key, cached=False)
    finally:
        fcntl.flock(lock, fcntl.LOCK_UN); lock.close()


def _in_use(d):
    try: names = os.listdir(d)
    except OSError: return False
    for n in names:
        if n.startswith('inuse.'):
            pid = n.split('.', 1)[1]
            if pid.isdigit() and os.path.exists('/proc/' + pid): return True
            try: os.remove(os.path.join(d, n))
            except OSError: pass
    return False


def _mark_in_use(d):
    import atexit
    me = os.getpid()
    marker = os.path.join(d, 'inuse.%d' % me)
    try: open(marker, 'w').close()
    except OSError: return
    def _drop():
        if os.getpid() == me:
            try: os.remove(marker)
            except OSError: pass
    atexit.register(_drop)


def info(d, key, cached):
    _mark_in_use(d)
    return {'dir': d, 'key': key, 'cached': cached, 'mir': os.path.join(d, 'pyxis.mir'), 'json': os.path.join(d, 'pyxis.json'),
            'replay': os.path.join(d, 'verif_replay'), 'src_root': os.path.join(d, 'copy'),
            'log': json.load(open(os.path.join(d, 'done')))['log']}


if __name__ == '__main__':
    try:
        i = prepare(verbose=True)
    except BuildError as e:
        print('BUILD-ERROR', e); sys.exit(2)
    print(json.dumps(i, indent=1))
