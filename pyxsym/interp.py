"""Symbolic interpreter over the MIR of the pyxis crate.

One `Interp.run_path(decisions)` call executes a template along one path: whenever control flow depends on a
symbolic condition, the next recorded decision is taken (or, past the recorded prefix, feasibility of both sides is
asked of z3 and the alternative is queued).  `explore` drives this to a complete partition of the input space.
"""
import sys, re, time
import z3
from .values import *
from .program import Unsupported
from .mir import INT_T, split_top, strip_generics, ty_strip_ref

sys.setrecursionlimit(20000)

MASK = {w: (1 << w) - 1 for w in (8, 16, 32, 64, 128)}


def to_range(v, w, signed):
    v &= MASK[w]
    if signed and v >> (w - 1): v -= 1 << w
    return v


def bv(x, w):
    if isinstance(x, z3.ExprRef): return x
    if isinstance(x, bool): raise Unsupported('bool used as int')
    return z3.BitVecVal(x & MASK[w], w)


def zbool(x):
    return x if isinstance(x, z3.ExprRef) else z3.BoolVal(bool(x))


def int_type_of(tystr):
    if tystr is None: return None
    t = tystr.strip()
    if t in INT_T: return INT_T[t]
    if t == 'bool': return 'bool'
    return None


_NL_CACHE = {}


def has_nonlinear(t):
    """does the term contain multiplication / division / remainder of two non-constant operands?"""
    key = t.get_id()
    r = _NL_CACHE.get(key)
    if r is not None: return r[0]
    k = t.decl().kind() if z3.is_app(t) else None
    res = False
    if k in (z3.Z3_OP_BMUL, z3.Z3_OP_BUDIV, z3.Z3_OP_BUREM, z3.Z3_OP_BSDIV, z3.Z3_OP_BSREM, z3.Z3_OP_BSMOD,
             z3.Z3_OP_BUDIV_I, z3.Z3_OP_BUREM_I, z3.Z3_OP_BSDIV_I, z3.Z3_OP_BSREM_I, z3.Z3_OP_BSMOD_I,
             z3.Z3_OP_BUMUL_NO_OVFL, z3.Z3_OP_BSMUL_NO_OVFL, z3.Z3_OP_BSMUL_NO_UDFL):
        res = sum(0 if z3.is_bv_value(c) else 1 for c in t.children()) >= 2
    if not res:
        for c in t.children():
            if has_nonlinear(c): res = True; break
    _NL_CACHE[key] = (res, t)
    return res


class Leaf:
    __slots__ = ('pc', 'decisions', 'kind', 'value', 'steps', 'forks', 'site')

    def __init__(self, pc, decisions, kind, value, steps, forks, site=''):
        self.pc = pc; self.decisions = decisions; self.kind = kind; self.value = value
        self.steps = steps; self.forks = forks; self.site = site


class Interp:
    def __init__(self, prog, models_cls, max_steps=400000, assumptions=()):
        self.prog = prog
        self.max_steps = max_steps
        self.assumptions = list(assumptions)
        self.models = models_cls(self)
        self.promoted_cache = {}
        self.type_cache = {}
        self._const_cache = {}
        self.zst_locals = {}
        self.trace = False
        self.narrowing = True
        self._var_bounds = None
        self._ub_cache = {}
        self._ub_keep = []
        self.fork_sites = None
        self.solver_timeout_ms = 8000
        self.summarize = set()
        self.in_summary = False
        self.summary_cache = {}
        self.summary_keep = []
        self.summarized = set()
        self.map_order = None      # optional hook: f(interp, entries) -> entries in iteration order
        self.called = set()        # names of MIR bodies executed (evidence)
        self.modelled = set()      # model keys used (evidence)
        self.solver_time = 0.0
        self.solver_checks = 0

    # ------------------------------------------------------------------ path driver
    def run_path(self, entry, args, decisions):
        self.decisions = dict(decisions) if decisions else {}
        self.bcount = 0
        self.pc = []
        self.pending = []
        self.steps = 0
        self.nforks = 0
        self.solver = z3.Solver()
        self.solver.set('timeout', self.solver_timeout_ms)
        self.bsolver = z3.Solver()   # linear facts only: used to prove operand bounds for narrowing
        self.bsolver.set('timeout', 500)
        for a in self.assumptions:
            self.solver.add(a)
            if not has_nonlinear(a): self.bsolver.add(a)
        self.model = None
        self.epoch = 0
        self.order_choice = {}
        self.checked_ranges = {}
        self.bound_cache = {}
        self.bound_keep = []
        self.stack = []
        try:
            f = self.lookup_fn(entry)
            v = self.run_fn(f, [copy_val(a) for a in args])
            leaf = Leaf(self.pc, self.decisions, 'ret', v, self.steps, self.nforks)
        except Panic as p:
            leaf = Leaf(self.pc, self.decisions, 'panic', p.msg, self.steps, self.nforks, p.site)
        except Unbounded as u:
            leaf = Leaf(self.pc, self.decisions, 'unbounded', str(u), self.steps, self.nforks)
        return leaf, self.pending

    def explore(self, entry, args, max_paths=100000, on_leaf=None):
        work = [{}]
        leaves = []
        while work:
            dec = work.pop()
            leaf, pending = self.run_path(entry, args, dec)
            work.extend(pending)
            if on_leaf: on_leaf(leaf)
            leaves.append(leaf)
            if len(leaves) > max_paths: raise Unsupported('path budget exceeded (%d)' % max_paths)
        return leaves

    def lookup_fn(self, name):
        k, f = self.prog.resolve(name)
        if k != 'mir': raise Unsupported('entry ' + name)
        return f

    # ------------------------------------------------------------------ branching
    def branch(self, cond):
        """cond: bool | z3 Bool; returns the Python bool taken on this path.
        Decisions are keyed by the running count of branch() calls (which does not depend on how much z3's
        simplifier happens to fold), so a recorded prefix replays identically in any process."""
        self.bcount += 1
        if cond is True or cond is False: return cond
        if not isinstance(cond, z3.ExprRef): return bool(cond)
        c = z3.simplify(cond)
        if z3.is_true(c): return True
        if z3.is_false(c): return False
        key = self.bcount
        b = self.decisions.get(key)
        if b is not None:
            self.add_pc(c if b else z3.Not(c))
            self.model = None
            return b
        t0 = time.time()
        nc = z3.Not(c)
        m = self.model
        val = None
        if m is not None:
            val = z3.is_true(m.eval(c, model_completion=True))
        model_t = model_f = None
        if val is True:
            can_t = True; model_t = m
            can_f = self.chk(nc)
            if can_f: model_f = self.solver.model()
        elif val is False:
            can_f = True; model_f = m
            can_t = self.chk(c)
            if can_t: model_t = self.solver.model()
        else:
            can_t = self.chk(c)
            if can_t:
                model_t = self.solver.model()
                can_f = self.chk(nc)
                if can_f: model_f = self.solver.model()
            else:
                can_f = self.chk(nc)
                if can_f: model_f = self.solver.model()
        self.solver_time += time.time() - t0
        if can_t and can_f:
            alt = dict(self.decisions); alt[key] = False
            self.pending.append(alt)
            self.nforks += 1
            if self.fork_sites is not None:
                k = (self.stack[-1] if self.stack else '?')
                self.fork_sites[k] = self.fork_sites.get(k, 0) + 1
            b = True
        elif can_t: b = True
        elif can_f: b = False
        else:
            raise Unsupported('infeasible path reached (contradictory assumptions or a stale decision prefix)')
        self.model = model_t if b else model_f
        self.decisions[key] = b
        self.add_pc(c if b else nc)
        return b

    def chk(self, c):
        self.solver_checks += 1
        r = self.solver.check(c)
        if r == z3.unknown:
            s2 = z3.SolverFor('QF_BV'); s2.set('timeout', 60000)
            for c_ in self.solver.assertions(): s2.add(c_)
            s2.add(c)
            r2 = s2.check()
            if r2 == z3.unsat: return False
            if r2 == z3.sat:
                mm2 = s2.model()
                vs = set()
                fix = []
                for d in mm2.decls():
                    if d.arity() == 0: fix.append(d() == mm2[d])
                r = self.solver.check(*([c] + fix))
        if r == z3.unknown:
            r = self.check_split([c])
            if r == z3.unknown:
                raise Unsupported('solver returned unknown (%s) on a feasibility check in %s' % (self.solver.reason_unknown(), self.stack[-1] if self.stack else '?'))
        return r == z3.sat

    # ---- fallback for hard queries: case split on small-domain parameters that occur under a multiplication/remainder
    def nonlinear_vars(self, terms):
        seen = set(); out = {}
        def walk(t, under):
            key = (t.get_id(), under)
            if key in seen: return
            seen.add(key)
            if z3.is_app(t):
                k = t.decl().kind()
                if k == z3.Z3_OP_UNINTERPRETED and not t.children():
                    if under: out[t.get_id()] = t
                    return
                u = under or k in (z3.Z3_OP_BMUL, z3.Z3_OP_BUDIV, z3.Z3_OP_BUREM, z3.Z3_OP_BUDIV_I, z3.Z3_OP_BUREM_I,
                                   z3.Z3_OP_BSDIV, z3.Z3_OP_BSREM, z3.Z3_OP_BSDIV_I, z3.Z3_OP_BSREM_I)
                for ch in t.children(): walk(ch, u)
        for t in terms: walk(t, False)
        vb = self.var_bounds()
        cands = [(vb[i], v) for i, v in out.items() if i in vb and 0 < vb[i] <= 64]
        cands.sort(key=lambda x: x[0])
        return [v for _, v in cands]

    def check_split(self, extra, budget_ms=None, depth=0, cands=None, deadline=None):
        """decide satisfiability of solver ∧ extra by enumerating the values of small-domain parameters that occur in
        non-linear positions; returns z3.sat (self.solver.model() valid) / z3.unsat / z3.unknown"""
        s = self.solver
        if deadline is None: deadline = time.time() + 600
        if cands is None:
            cands = self.nonlinear_vars(list(self.pc) + list(extra))
        if not cands or depth >= 3 or time.time() > deadline: return z3.unknown
        v = cands[0]; rest = cands[1:]
        ub = self.var_bounds()[v.get_id()]
        any_unknown = False
        for val in range(ub + 1):
            lit = v == z3.BitVecVal(val, v.size())
            self.solver_checks += 1
            r = s.check(*(list(extra) + [lit]))
            if r == z3.unknown:
                s.push(); s.add(lit)
                try:
                    r = self.check_split(extra, budget_ms, depth + 1, rest, deadline)
                    if r == z3.sat:
                        self._split_model = s.model()
                finally:
                    s.pop()
                if r == z3.sat:
                    # re-establish the model outside the pushed scope
                    self.solver_checks += 1
                    mm = self._split_model
                    fix = [x == mm.eval(x, model_completion=True) for x in cands]
                    if s.check(*(list(extra) + fix)) == z3.sat: return z3.sat
                    return z3.unknown
            if r == z3.sat: return z3.sat
            if r == z3.unknown: any_unknown = True
        return z3.unknown if any_unknown else z3.unsat

    def add_pc(self, c):
        self.pc.append(c); self.solver.add(c)
        if not has_nonlinear(c): self.bsolver.add(c)

    def choose(self, n, what=''):
        """explicit nondeterministic choice among n alternatives (used for hash-map iteration orders)"""
        self.bcount += 1
        if n <= 1: return 0
        key = self.bcount
        d = self.decisions.get(key)
        if d is not None: return d
        for alt in range(1, n):
            dd = dict(self.decisions); dd[key] = alt
            self.pending.append(dd)
        self.nforks += n - 1
        self.decisions[key] = 0
        return 0

    def concretize(self, v, what='value'):
        """a symbolic integer needed as a concrete one: fork over its feasible values (bounded)"""
        if not isinstance(v, z3.ExprRef): return v
        s = z3.simplify(v)
        if z3.is_bv_value(s): return s.as_long()
        for _ in range(64):
            self.bcount += 1
            key = self.bcount
            rec = self.decisions.get(key)
            if rec is not None:
                m = rec[1]   # recorded candidate value (replay must not depend on the solver's model)
            else:
                self.solver_checks += 1
                if self.solver.check() != z3.sat: raise Unsupported('infeasible in concretize')
                m = self.solver.model().eval(s, model_completion=True).as_long()
                self.decisions[key] = ('c', m)
            if self.branch(s == z3.BitVecVal(m, s.size())): return m
        raise Unsupported('cannot concretize %s (%s): too many values' % (what, s))

    # ------------------------------------------------------------------ pure scalar functions: merged summaries
    def summarized_call(self, f, args):
        """`f` is a pure function over scalars (e.g. util::gcd).  Explore it on its own, under the global assumptions
        only, and return its result as one if-then-else term over its path conditions instead of forking the caller
        once per callee path.  Panicking callee paths are re-raised in the caller under their condition."""
        key = (f.name,) + tuple(x.get_id() if isinstance(x, z3.ExprRef) else ('c', x) for x in args)
        summ = self.summary_cache.get(key)
        if summ is None:
            saved = (self.decisions, self.bcount, self.pc, self.pending, self.solver, self.model, self.stack,
                     self.bound_cache, self.steps, self.nforks)
            saved_bsolver = self.bsolver
            self.in_summary = True
            try:
                leaves = []
                work = [{}]
                while work:
                    dec = work.pop()
                    self.decisions = dict(dec); self.bcount = 0; self.pc = []; self.pending = []
                    self.solver = z3.Solver(); self.solver.set('timeout', self.solver_timeout_ms)
                    self.bsolver = z3.Solver(); self.bsolver.set('timeout', 500)
                    for a in self.assumptions:
                        self.solver.add(a)
                        if not has_nonlinear(a): self.bsolver.add(a)
                    self.model = None; self.bound_cache = {}; self.stack = []
                    try:
                        v = self.run_fn(f, list(args))
                        leaves.append((list(self.pc), 'ret', v, ''))
                    except Panic as p:
                        leaves.append((list(self.pc), 'panic', p.msg, p.site))
                    except Unbounded as u:
                        leaves.append((list(self.pc), 'unbounded', str(u), ''))
                    work.extend(self.pending)
                    if len(leaves) > 4096: raise Unsupported('summary of %s has too many paths' % f.name)
            finally:
                self.in_summary = False
                self.bsolver = saved_bsolver
                (self.decisions, self.bcount, self.pc, self.pending, self.solver, self.model, self.stack,
                 self.bound_cache, _steps, self.nforks) = saved
                self.steps = max(self.steps, _steps)
            summ = leaves
            self.summary_cache[key] = summ
            self.summary_keep.append(args)
            self.summarized.add(f.name)
        rets = []
        for pc, kind, v, site in summ:
            cond = z3.And(*pc) if len(pc) > 1 else (pc[0] if pc else z3.BoolVal(True))
            if kind == 'ret':
                rets.append((cond, v))
            elif self.branch(cond):
                if kind == 'panic': raise Panic(v, site)
                raise Unbounded(v)
        if not rets: raise Unsupported('summary of %s has no returning path' % f.name)
        res = rets[-1][1]
        w = None
        for c, v in rets:
            if isinstance(v, z3.ExprRef) and not z3.is_bool(v): w = v.size()
        for c, v in reversed(rets[:-1]):
            if w is not None:
                res = z3.If(c, bv(v, w), bv(res, w))
            else:
                res = z3.If(c, zbool(v), zbool(res))
        return res

    # ------------------------------------------------------------------ function execution
    def run_fn(self, f, args):
        if f.name.endswith('::new') and 'semantic_state::' in f.name:
            self.epoch += 1      # number of SemanticState::new calls so far on this path (product templates build more than once)
        if f.name in self.summarize and not self.in_summary:
            if any(isinstance(x, z3.ExprRef) for x in args):
                return self.summarized_call(f, args)
        zl = self.zst_locals.get(f.name)
        if zl is None:
            zl = {}
            for loc, ty in f.locals.items():
                m = re.fullmatch(r'\{(closure@[^{}]*)\}', ty.strip())
                if m: zl[loc] = m.group(1)
            self.zst_locals[f.name] = zl
        vars = {loc: Closure(cl, []) for loc, cl in zl.items()} if zl else {}
        fa = f.args
        if len(args) != len(fa):
            raise Unsupported('arity mismatch calling %s: %d args for %d params' % (f.name, len(args), len(fa)))
        for i in range(len(fa)): vars[fa[i]] = args[i]
        self.called.add(f.name)
        blocks = f.blocks
        bb = 'bb0'
        self.stack.append(f.name)
        if len(self.stack) > 400: raise Unbounded('call depth > 400 in ' + f.name)
        try:
            while True:
                self.steps += 1
                if self.steps > self.max_steps: raise Unbounded('step budget %d exhausted in %s' % (self.max_steps, f.name))
                stmts, term = blocks[bb]
                for s in stmts:
                    if s[0] == 'assign':
                        v = self.rvalue(f, vars, s[2])
                        c, k, _ = self.lval(vars, s[1])
                        c[k] = v
                    elif s[0] == 'setdiscr':
                        raise Unsupported('SetDiscriminant in ' + f.name)
                    else:
                        raise Unsupported('statement %s in %s: %s' % (s[1], f.name, s[2]))
                tk = term[0]
                if tk == 'goto':
                    bb = term[1]
                elif tk == 'call':
                    _, dest, fn, aops, ret = term
                    argv = [self.operand(f, vars, a) for a in aops]
                    if fn[0] == 'static':
                        r = self.call_static(fn[1], argv, f)
                    else:
                        r = self.call_value(self.operand(f, vars, fn[1]), argv)
                    if ret is None:
                        raise Unsupported('diverging call returned: ' + str(fn))
                    c, k, _ = self.lval(vars, dest)
                    c[k] = r
                    bb = ret
                elif tk == 'switch':
                    v = self.operand(f, vars, term[1])
                    bb = self.switch(v, term[2], term[3])
                elif tk == 'return':
                    return vars.get('_0', UNIT)
                elif tk == 'drop':
                    bb = term[2]
                elif tk == 'assert':
                    _, cop, neg, msg, margs, succ = term
                    cv = self.operand(f, vars, cop)
                    ok = self.branch(z3.Not(cv) if (neg and isinstance(cv, z3.ExprRef)) else ((not cv) if neg else cv))
                    if ok: bb = succ
                    else: raise Panic(msg.strip('"'), f.name + ':' + bb)
                elif tk == 'unreachable':
                    raise Unsupported('reached `unreachable` in %s %s' % (f.name, bb))
                elif tk == 'resume':
                    raise Unsupported('reached cleanup block in ' + f.name)
                else:
                    raise Unsupported('terminator %s in %s: %s' % (term[1], f.name, term[2] if len(term) > 2 else ''))
        finally:
            self.stack.pop()

    def switch(self, v, arms, other):
        if isinstance(v, z3.ExprRef):
            if z3.is_bool(v):
                for kv, dst in arms:
                    if self.branch(v if kv else z3.Not(v)): return dst
                return other
            w = v.size()
            for kv, dst in arms:
                if self.branch(v == z3.BitVecVal(kv & MASK[w], w)): return dst
            if other is None: raise Unsupported('switch fell through')
            return other
        if v is True: v = 1
        elif v is False: v = 0
        if not isinstance(v, int): raise Unsupported('switchInt on %r' % (v,))
        for kv, dst in arms:
            if kv == v: return dst
            if kv >= (1 << 63) and v < 0 and kv == (v & MASK[64]): return dst  # isize discriminants printed unsigned
        if other is None: raise Unsupported('switch on %r has no arm' % (v,))
        return other

    # ------------------------------------------------------------------ calls
    def call_static(self, callee, argv, caller=None):
        kind, tgt = self.prog.resolve(callee)
        if kind == 'mir':
            return self.run_fn(tgt, argv)
        if tgt[0] == 'path':
            ev = self.prog.enum_variant(tgt[1])
            if ev is not None and ev[1] in ('Some', 'Ok', 'Err', 'Continue', 'Break'):
                return Adt('::'.join(ev[0]), ev[1], ev[2], list(argv))
        return self.models.call(tgt, argv)

    def call_value(self, fnv, argv):
        """call a closure / fn item with already-untupled arguments"""
        t = type(fnv)
        if t is Ptr: return self.call_value(fnv.get(), argv)
        if t is Closure:
            f = self.prog.closures.get(fnv.loc)
            if f is None: raise Unsupported('closure body not found: ' + fnv.loc)
            env_ty = f.first_arg_ty or ''
            env = Ptr([fnv], 0) if env_ty.startswith('&') else fnv
            return self.run_fn(f, [env] + list(argv))
        if t is FnItem:
            return self.call_static(fnv.name, list(argv))
        raise Unsupported('call of non-function value %r' % (fnv,))

    # ------------------------------------------------------------------ places
    def lval(self, vars, place):
        c = vars; k = place[0]; fat = False
        for p in place[1]:
            tag = p[0]
            v = c[k]
            if tag == 'field':
                tv = type(v)
                if tv is Adt or tv is Tup or tv is Closure:
                    c = v.fields; k = p[1]
                elif tv is BoxV:
                    pass  # Box internals (.0: Unique).0: NonNull — stay on the box
                elif tv is Ptr and p[1] == 0:
                    pass  # NonNull/Unique wrappers around a raw pointer
                else:
                    raise Unsupported('field projection .%d on %r' % (p[1], v))
                fat = False
            elif tag == 'deref':
                tv = type(v)
                if tv is Ptr: c = v.c; k = v.k; fat = False
                elif tv is BoxV: c = v.cell; k = 0; fat = False
                else: c = [v]; k = 0; fat = True
            elif tag == 'downcast':
                if type(v) is Adt and v.variant != p[1]:
                    raise Unsupported('downcast of %s to %s' % (v, p[1]))
            elif tag == 'index':
                idx = self.concretize(vars[p[1]], 'index')
                c, k = self.index_into(v, idx); fat = False
            elif tag == 'constidx':
                idx = p[1]
                c, k = self.index_into(v, idx, from_end=p[3]); fat = False
            else:
                raise Unsupported('projection ' + str(p))
        return c, k, fat

    def index_into(self, v, idx, from_end=False):
        tv = type(v)
        if tv is RVec or tv is Arr:
            n = len(v.items)
            if from_end: idx = n - idx
            if not (0 <= idx < n): raise Panic('index out of bounds: the len is %d but the index is %d' % (n, idx))
            return v.items, idx
        if tv is Slice:
            n = v.end - v.start
            if from_end: idx = n - idx
            if not (0 <= idx < n): raise Panic('index out of bounds: the len is %d but the index is %d' % (n, idx))
            return v.items, v.start + idx
        raise Unsupported('index into %r' % (v,))

    def read(self, vars, place):
        if not place[1]:
            try: return vars[place[0]]
            except KeyError: raise Unsupported('read of uninitialised local ' + place[0])
        c, k, _ = self.lval(vars, place)
        return c[k]

    # ------------------------------------------------------------------ operands / constants
    def operand(self, f, vars, o):
        tag = o[0]
        if tag == 'move':
            return self.read(vars, o[1])
        if tag == 'copy':
            v = self.read(vars, o[1])
            tv = type(v)
            if tv is Tup or tv is Adt or tv is Arr or tv is Closure: return copy_val(v)
            return v
        return self.const(f, o[1])

    def const(self, f, c):
        tag = c[0]
        if tag == 'int' or tag == 'bool' or tag == 'str' or tag == 'bytes': return c[1]
        if tag == 'unit': return UNIT
        if tag == 'arr0': return Arr([])
        if tag == 'path':
            text = strip_generics(c[1])
            ev = self.prog.enum_variant(text)
            if ev is not None:
                kind, tgt = self.prog.resolve(c[1])
                if kind == 'mir' and tgt.kind == 'fn' and tgt.args:
                    return FnItem(c[1])  # tuple-variant constructor used as a function value
                if ev[1] in ('Some', 'Ok', 'Err', 'Continue', 'Break'):
                    return FnItem(c[1])
                return Adt('::'.join(ev[0]), ev[1], ev[2], [])
            cf = self.named_const(text)
            if cf is not None:
                if cf.name not in self.promoted_cache:
                    self.promoted_cache[cf.name] = self.run_fn(cf, [])
                return copy_val(self.promoted_cache[cf.name])
            return FnItem(c[1])
        if tag == 'zst':
            m = re.match(r'\{(closure@[^}]*)\}', c[1])
            if m: return Closure(m.group(1), [])
            m = re.search(r'\{(.*)\}$', c[1])
            if m: return FnItem(m.group(1))
            return UNIT
        if tag == 'promoted':
            n = re.search(r'promoted\[(\d+)\]$', c[1]).group(1)
            name = f.name + '::promoted[%s]' % n
            pf = self.prog.by_name.get(name)
            if pf is None: raise Unsupported('promoted not found: ' + name)
            if name not in self.promoted_cache:
                self.promoted_cache[name] = self.run_fn(pf, [])
            return self.promoted_cache[name]
        raise Unsupported('constant ' + str(c))

    def named_const(self, text):
        if text in self._const_cache: return self._const_cache[text]
        last = text.split('::')[-1]
        hit = None
        for name, fn in self.prog.by_name.items():
            if fn.kind == 'const' and name.split('::')[-1] == last and 'promoted' not in name and '{' not in name:
                hit = fn; break
        self._const_cache[text] = hit
        return hit

    # ------------------------------------------------------------------ static types (only what arithmetic needs)
    def place_type(self, f, place):
        key = (f.name, place)
        if key in self.type_cache: return self.type_cache[key]
        t = None
        projs = place[1]
        if not projs:
            t = f.locals.get(place[0])
        elif projs[-1][0] == 'field':
            t = projs[-1][2]
        elif projs[-1][0] == 'deref':
            inner = self.place_type(f, (place[0], projs[:-1]))
            t = ty_strip_ref(inner) if inner else None
        elif projs[-1][0] in ('index', 'constidx'):
            inner = self.place_type(f, (place[0], projs[:-1]))
            if inner:
                m = re.match(r'^\[(.*?)(?:; [^;\]]+)?\]$', inner.strip())
                if m: t = m.group(1)
        self.type_cache[key] = t
        return t

    def operand_int_type(self, f, o):
        if o[0] == 'const':
            c = o[1]
            if c[0] == 'int': return c[2]
            if c[0] == 'bool': return 'bool'
            return None
        return int_type_of(self.place_type(f, o[1]))

    # ------------------------------------------------------------------ rvalues
    def rvalue(self, f, vars, r):
        tag = r[0]
        if tag == 'use':
            return self.operand(f, vars, r[1])
        if tag == 'ref':
            c, k, fat = self.lval(vars, r[1])
            if fat: return c[k]
            return Ptr(c, k)
        if tag == 'adt':
            name = r[1]
            ops = [self.operand(f, vars, o) for o in r[2]]
            ev = self.prog.enum_variant(name)
            if ev is not None:
                return Adt('::'.join(ev[0]), ev[1], ev[2], ops)
            return Adt(name, None, None, ops)
        if tag == 'discr':
            v = self.read(vars, r[1])
            if type(v) is Adt and v.vidx is not None:
                if v.name == 'Ordering': return v.vidx - 1
                return v.vidx
            raise Unsupported('discriminant of %r' % (v,))
        if tag == 'tuple':
            return Tup([self.operand(f, vars, o) for o in r[1]])
        if tag == 'binop':
            a = self.operand(f, vars, r[2]); b = self.operand(f, vars, r[3])
            ity = self.operand_int_type(f, r[2]) or self.operand_int_type(f, r[3])
            return self.binop(r[1], a, b, ity, f)
        if tag == 'unop':
            a = self.operand(f, vars, r[2])
            return self.unop(r[1], a, self.operand_int_type(f, r[2]))
        if tag == 'cast':
            return self.cast(f, self.operand(f, vars, r[1]), r[2], r[3], self.operand_int_type(f, r[1]))
        if tag == 'array':
            return Arr([self.operand(f, vars, o) for o in r[1]])
        if tag == 'repeat':
            m = re.match(r'(?:const )?(\d+)(?:_usize)?$', r[2])
            if not m: raise Unsupported('repeat count ' + r[2])
            v = self.operand(f, vars, r[1])
            return Arr([copy_val(v) for _ in range(int(m.group(1)))])
        if tag == 'closure':
            return Closure(r[1], [self.operand(f, vars, o) for o in r[2]])
        if tag == 'len':
            v = self.read(vars, r[1])
            return self.len_of(v)
        raise Unsupported('rvalue ' + str(r))

    def len_of(self, v):
        tv = type(v)
        if tv is RVec or tv is Arr: return len(v.items)
        if tv is Slice: return v.end - v.start
        if tv is str: return len(v.encode('utf8'))
        if tv is Ptr: return self.len_of(v.get())
        raise Unsupported('len of %r' % (v,))

    def unop(self, op, a, ity):
        if op == 'Not':
            if isinstance(a, z3.ExprRef): return z3.Not(a) if z3.is_bool(a) else ~a
            if isinstance(a, bool): return not a
            w, s = ity
            return to_range(~a, w, s)
        if op == 'Neg':
            if isinstance(a, z3.ExprRef): return -a
            w, s = ity
            return to_range(-a, w, s)
        if op == 'PtrMetadata':
            return self.len_of(a)
        raise Unsupported('unop ' + op)

    def binop(self, op, a, b, ity, f=None):
        sa = isinstance(a, z3.ExprRef); sb = isinstance(b, z3.ExprRef)
        if not sa and not sb:
            if isinstance(a, bool) or isinstance(b, bool) or ity == 'bool':
                if op == 'Eq': return a == b
                if op == 'Ne': return a != b
                if op == 'BitAnd': return a and b
                if op == 'BitOr': return a or b
                if op == 'BitXor': return a != b
                raise Unsupported('bool binop ' + op)
            if not isinstance(a, int) or not isinstance(b, int):
                if op in ('Eq', 'Ne') and type(a) is Ptr and type(b) is Ptr:
                    same = a.c is b.c and a.k == b.k
                    return same if op == 'Eq' else not same
                raise Unsupported('binop %s on %r, %r' % (op, a, b))
            if op == 'Eq': return a == b
            if op == 'Ne': return a != b
            if op == 'Lt': return a < b
            if op == 'Le': return a <= b
            if op == 'Gt': return a > b
            if op == 'Ge': return a >= b
            if ity is None or ity == 'bool': raise Unsupported('integer type unknown for %s in %s' % (op, f.name if f else '?'))
            w, s = ity
            lo, hi = (-(1 << (w - 1)), (1 << (w - 1)) - 1) if s else (0, MASK[w])
            if op in ('AddWithOverflow', 'SubWithOverflow', 'MulWithOverflow'):
                r = a + b if op[0] == 'A' else a - b if op[0] == 'S' else a * b
                return Tup([to_range(r, w, s), not (lo <= r <= hi)])
            if op in ('Add', 'AddUnchecked'): return to_range(a + b, w, s)
            if op in ('Sub', 'SubUnchecked'): return to_range(a - b, w, s)
            if op in ('Mul', 'MulUnchecked'): return to_range(a * b, w, s)
            if op == 'Div':
                if b == 0: raise Panic('attempt to divide by zero')
                q = abs(a) // abs(b); q = q if (a < 0) == (b < 0) else -q
                return to_range(q, w, s)
            if op == 'Rem':
                if b == 0: raise Panic('attempt to calculate the remainder with a divisor of zero')
                r = abs(a) % abs(b)
                return to_range(-r if a < 0 else r, w, s)
            if op == 'BitAnd': return to_range(a & b, w, s)
            if op == 'BitOr': return to_range(a | b, w, s)
            if op == 'BitXor': return to_range(a ^ b, w, s)
            if op in ('Shl', 'ShlUnchecked'): return to_range(a << (b % w), w, s)
            if op in ('Shr', 'ShrUnchecked'): return to_range(a >> (b % w), w, s)
            raise Unsupported('binop ' + op)
        # symbolic
        if (sa and z3.is_bool(a)) or (sb and z3.is_bool(b)) or ity == 'bool':
            za = zbool(a); zb = zbool(b)
            if op == 'Eq': return za == zb
            if op == 'Ne': return za != zb
            if op == 'BitAnd': return z3.And(za, zb)
            if op == 'BitOr': return z3.Or(za, zb)
            if op == 'BitXor': return z3.Xor(za, zb)
            raise Unsupported('bool binop ' + op)
        w = a.size() if sa else b.size()
        if ity is not None and ity != 'bool':
            if ity[0] != w and op not in ('Shl', 'Shr', 'ShlUnchecked', 'ShrUnchecked'):
                raise Unsupported('width mismatch in %s: static %s vs %d' % (op, ity, w))
            s = ity[1]
        else:
            raise Unsupported('integer type unknown for symbolic %s in %s' % (op, f.name if f else '?'))
        za = bv(a, w); zb = bv(b, w)
        if op == 'Eq': return za == zb
        if op == 'Ne': return za != zb
        if op == 'Lt': return (za < zb) if s else z3.ULT(za, zb)
        if op == 'Le': return (za <= zb) if s else z3.ULE(za, zb)
        if op == 'Gt': return (za > zb) if s else z3.UGT(za, zb)
        if op == 'Ge': return (za >= zb) if s else z3.UGE(za, zb)
        if op == 'AddWithOverflow':
            ok = z3.And(z3.BVAddNoOverflow(za, zb, s), z3.BVAddNoUnderflow(za, zb)) if s else z3.BVAddNoOverflow(za, zb, False)
            return Tup([za + zb, z3.Not(ok)])
        if op == 'SubWithOverflow':
            ok = z3.And(z3.BVSubNoOverflow(za, zb), z3.BVSubNoUnderflow(za, zb, True)) if s else z3.UGE(za, zb)
            return Tup([za - zb, z3.Not(ok)])
        if op in ('MulWithOverflow', 'Mul') and (not sa or not sb):
            # multiplication by a constant needs no bit-blasted multiplier
            cst, sym = (a, zb) if not sa else (b, za)
            if cst == 1 or cst == 0:
                res = sym if cst == 1 else z3.BitVecVal(0, w)
                return Tup([res, False]) if op == 'MulWithOverflow' else res
        if op in ('MulWithOverflow', 'Mul', 'Div', 'Rem') and not s and w == 64 and self.narrowing:
            r = self.narrow_op(op, za, zb)
            if r is not None: return r
        if op == 'MulWithOverflow':
            ok = z3.And(z3.BVMulNoOverflow(za, zb, s), z3.BVMulNoUnderflow(za, zb)) if s else z3.BVMulNoOverflow(za, zb, False)
            return Tup([za * zb, z3.Not(ok)])
        if op in ('Add', 'AddUnchecked'): return za + zb
        if op in ('Sub', 'SubUnchecked'): return za - zb
        if op in ('Mul', 'MulUnchecked'): return za * zb
        if op == 'Div': return (za / zb) if s else z3.UDiv(za, zb)
        if op == 'Rem': return z3.SRem(za, zb) if s else z3.URem(za, zb)
        if op == 'BitAnd': return za & zb
        if op == 'BitOr': return za | zb
        if op == 'BitXor': return za ^ zb
        raise Unsupported('symbolic binop ' + op)

    # ---- bit-width narrowing: an unsigned 64-bit operation whose operands are provably small (under the assumptions
    # and the path condition) is built at the small width and zero-extended; this is an equivalence, not an abstraction
    def bound_bits(self, x):
        if not isinstance(x, z3.ExprRef):
            return 8 if x < 256 else 16 if x < 65536 else 32 if x < (1 << 32) else None
        key = x.get_id()
        if key in self.bound_cache: return self.bound_cache[key]
        ub = self.syntactic_ub(x)
        if ub is not None and ub < (1 << 32):
            r = 8 if ub < 256 else 16 if ub < 65536 else 32
            self.bound_cache[key] = r; self.bound_keep.append(x)
            return r
        r = None
        t0 = time.time()
        for k in (8, 16, 32):
            self.solver_checks += 1
            if self.bsolver.check(z3.UGE(x, z3.BitVecVal(1 << k, 64))) == z3.unsat:
                r = k; break
        self.solver_time += time.time() - t0
        self.bound_cache[key] = r
        self.bound_keep.append(x)
        return r

    def var_bounds(self):
        """upper bounds of parameters read off the assumptions (ULT/ULE against constants, equalities, or-of-equalities)"""
        if self._var_bounds is not None: return self._var_bounds
        vb = {}
        def note(v, ub):
            if z3.is_const(v) and v.decl().kind() == z3.Z3_OP_UNINTERPRETED:
                k = v.get_id(); vb[k] = min(vb.get(k, ub), ub)
        def eq_ub(t):
            # t: And/Or/== tree; returns dict var_id -> ub valid for the whole formula, or {}
            k = t.decl().kind()
            if k == z3.Z3_OP_EQ:
                l, r = t.children()
                if z3.is_bv_value(r) and z3.is_const(l): return {l.get_id(): r.as_long()}
                if z3.is_bv_value(l) and z3.is_const(r): return {r.get_id(): l.as_long()}
                return {}
            if k == z3.Z3_OP_ULEQ:
                l, r = t.children()
                if z3.is_bv_value(r) and z3.is_const(l): return {l.get_id(): r.as_long()}
                return {}
            if k == z3.Z3_OP_ULT:
                l, r = t.children()
                if z3.is_bv_value(r) and z3.is_const(l) and r.as_long() > 0: return {l.get_id(): r.as_long() - 1}
                return {}
            if k == z3.Z3_OP_AND:
                out = {}
                for c in t.children():
                    for kk, vv in eq_ub(c).items(): out[kk] = min(out.get(kk, vv), vv)
                return out
            if k == z3.Z3_OP_OR:
                ds = [eq_ub(c) for c in t.children()]
                keys = set(ds[0]) if ds else set()
                for d in ds[1:]: keys &= set(d)
                return {kk: max(d[kk] for d in ds) for kk in keys}
            return {}
        for a in self.assumptions:
            if z3.is_app(a):
                for kk, vv in eq_ub(z3.simplify(a) if False else a).items(): vb[kk] = min(vb.get(kk, vv), vv)
        self._var_bounds = vb
        return vb

    def syntactic_ub(self, t, depth=0):
        """a sound unsigned upper bound of a 64-bit term from its syntax and the parameter bounds, or None"""
        if z3.is_bv_value(t): return t.as_long()
        key = t.get_id()
        c = self._ub_cache.get(key, False)
        if c is not False: return c
        r = None
        if depth < 40 and z3.is_app(t):
            k = t.decl().kind(); ch = t.children()
            full = (1 << t.size()) - 1 if z3.is_bv(t) else None
            if k == z3.Z3_OP_UNINTERPRETED and not ch:
                r = self.var_bounds().get(key, full)
            elif k == z3.Z3_OP_BADD:
                bs = [self.syntactic_ub(x, depth + 1) for x in ch]
                if all(b is not None for b in bs) and sum(bs) <= full: r = sum(bs)
            elif k == z3.Z3_OP_BMUL:
                bs = [self.syntactic_ub(x, depth + 1) for x in ch]
                if all(b is not None for b in bs):
                    p = 1
                    for b in bs: p *= b
                    if p <= full: r = p
            elif k == z3.Z3_OP_ZERO_EXT:
                r = self.syntactic_ub(ch[0], depth + 1)
            elif k == z3.Z3_OP_CONCAT and len(ch) == 2 and z3.is_bv_value(ch[0]) and ch[0].as_long() == 0:
                r = self.syntactic_ub(ch[1], depth + 1)
            elif k == z3.Z3_OP_EXTRACT:
                hi, lo = t.params()
                b = self.syntactic_ub(ch[0], depth + 1)
                if lo == 0:
                    r = (1 << (hi + 1)) - 1
                    if b is not None and b < r: r = b
            elif k in (z3.Z3_OP_BUREM, z3.Z3_OP_BUREM_I):
                r = self.syntactic_ub(ch[0], depth + 1)
            elif k == z3.Z3_OP_ITE:
                b1 = self.syntactic_ub(ch[1], depth + 1); b2 = self.syntactic_ub(ch[2], depth + 1)
                if b1 is not None and b2 is not None: r = max(b1, b2)
            elif k == z3.Z3_OP_BAND:
                bs = [self.syntactic_ub(x, depth + 1) for x in ch]
                bs = [b for b in bs if b is not None]
                if bs: r = min(bs)
            if r is None and full is not None: r = None
        self._ub_cache[key] = r
        self._ub_keep.append(t)
        return r

    def narrow_op(self, op, za, zb):
        ka = self.bound_bits(za) if not z3.is_bv_value(za) else self.bound_bits(za.as_long())
        if ka is None: return None
        kb = self.bound_bits(zb) if not z3.is_bv_value(zb) else self.bound_bits(zb.as_long())
        if kb is None: return None
        k = max(ka, kb)
        xa = z3.Extract(k - 1, 0, za); xb = z3.Extract(k - 1, 0, zb)
        if op == 'Rem':
            return z3.ZeroExt(64 - k, z3.URem(xa, xb))
        if op == 'Div':
            return z3.If(zb == 0, z3.BitVecVal(MASK[64], 64), z3.ZeroExt(64 - k, z3.UDiv(xa, xb)))
        if 2 * k > 64: return None
        prod = z3.ZeroExt(k, xa) * z3.ZeroExt(k, xb)
        res = z3.ZeroExt(64 - 2 * k, prod) if 2 * k < 64 else prod
        if op == 'Mul': return res
        return Tup([res, False])

    def cast(self, f, v, ty, kind, src_ity):
        if kind.startswith('IntToInt'):
            tgt = int_type_of(ty)
            if tgt is None or tgt == 'bool': raise Unsupported('cast to ' + ty)
            w, s = tgt
            if isinstance(v, bool): return int(v)
            if isinstance(v, z3.ExprRef):
                if z3.is_bool(v): return z3.If(v, z3.BitVecVal(1, w), z3.BitVecVal(0, w))
                sw = v.size()
                if sw == w: return v
                if sw > w: return z3.Extract(w - 1, 0, v)
                if src_ity is None or src_ity == 'bool': raise Unsupported('widening cast of unknown signedness')
                return z3.SignExt(w - sw, v) if src_ity[1] else z3.ZeroExt(w - sw, v)
            return to_range(v, w, s)
        if kind.startswith('PointerCoercion(Unsize'):
            # &[T; N] -> &[T]   |  &T -> &dyn Trait  | Box<T> -> Box<dyn Trait>
            if type(v) is Ptr:
                t = v.get()
                if type(t) is Arr and re.match(r"^&(?:'\w+ )?(?:mut )?\[", ty.strip()):
                    return Slice(t.items, 0, len(t.items))
            return v
        if kind.startswith('Transmute') or kind.startswith('PtrToPtr') or kind.startswith('PointerCoercion'):
            if type(v) is BoxV: return Ptr(v.cell, 0)
            return v
        raise Unsupported('cast kind %s to %s' % (kind, ty))
