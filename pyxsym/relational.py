"""Helpers for relational (product-template) properties: structural difference of two summaries as a z3 term."""
import z3
from .values import SymStr
from .models import Models


def differs(x, y):
    """z3 Bool (or Python bool): the two summary values are different"""
    if isinstance(x, list) or isinstance(y, list):
        if not (isinstance(x, list) and isinstance(y, list)) or len(x) != len(y): return True
        conds = []
        for p, q in zip(x, y):
            d = differs(p, q)
            if d is True: return True
            if d is not False: conds.append(d)
        return z3.Or(*conds) if conds else False
    if x is None or y is None: return not (x is None and y is None)
    if isinstance(x, (str, SymStr)) or isinstance(y, (str, SymStr)):
        if not (isinstance(x, (str, SymStr)) and isinstance(y, (str, SymStr))): return True
        if isinstance(x, str) and isinstance(y, str): return x != y
        e = Models.symstr_eq(None, x, y)
        return (not e) if isinstance(e, bool) else z3.Not(e)
    xs = isinstance(x, z3.ExprRef); ys = isinstance(y, z3.ExprRef)
    if xs or ys:
        if (xs and z3.is_bool(x)) or (ys and z3.is_bool(y)):
            bx = x if xs else z3.BoolVal(bool(x)); by = y if ys else z3.BoolVal(bool(y))
            return bx != by
        w = x.size() if xs else y.size()
        bx = x if xs else z3.BitVecVal(x, w); by = y if ys else z3.BitVecVal(y, w)
        return bx != by
    return x != y


def as_z3(d):
    if d is True: return z3.BoolVal(True)
    if d is False: return z3.BoolVal(False)
    return d


def is_ok(o): return isinstance(o, list) and o and o[0] == 'ok'
def is_err(o): return isinstance(o, list) and o and o[0] == 'err'


def pair_same_outcome(native, expected):
    """native vs interpreted outcome of a product template: component-wise, error texts not compared"""
    from .check import same_outcome
    if isinstance(expected, dict): return same_outcome(native, expected)
    if not (isinstance(native, list) and isinstance(expected, list) and len(native) == len(expected)): return False
    return all(same_outcome(n, e) for n, e in zip(native, expected))
