import sys, time, json, traceback, collections
import z3
from pyxsym.session import *
S = Session()
I = S.interp()
N = int(sys.argv[1]) if len(sys.argv)>1 else 1
a = sym_args(7+8*N)
A = [a[0]==4, a[1]==N]
for i in range(7+8*N):
    if i not in (0,1): A.append(z3.ULT(a[i], 1<<16))
for i in range(N):
    b=7+8*i
    A += [z3.ULE(a[b],5), a[b+1]==13, z3.UGE(a[b+5],1), z3.UGE(a[b+2],1), z3.ULE(a[b+6],16)]
A.append(z3.ULE(a[5],32))
I.assumptions = A; I.summarize={"gcd"}
t=time.time()
kinds=collections.Counter()
try:
    leaves = I.explore('t_layout', [args_value(a)])
except Exception as e:
    traceback.print_exc(); print('STACK', I.stack[-8:]); sys.exit(1)
for l in leaves:
    if l.kind=='ret':
        v=val_to_py(l.value); kinds[v[0] if v[0]=='ok' else 'err:'+str(v[1][-1])[:50]]+=1
    else: kinds[l.kind+':'+str(l.value)[:60]]+=1
print(len(leaves),'leaves', round(time.time()-t,1),'s', 'solver', round(I.solver_time,1), 'steps', sum(l.steps for l in leaves))
for k,v in kinds.most_common(): print(v,k)
