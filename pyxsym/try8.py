import sys, json, random
import z3
from pyxsym.session import *
from pyxsym.props import c03
U = json.load(open('/var/tmp/unsup.json'))
u = U[0]
dec = [tuple(d) if isinstance(d, list) else d for d in u['decisions']]
S = Session()
sl = [s for s in c03.slices('quick', random.Random(0)) if s.name=='n2-ps4'][0]
a = sym_args(sl.nparams); A = sl.assume(a)
def trace(prefix, warm):
    I = S.interp(assumptions=A); I.summarize={'gcd'}
    if warm: I.run_path('t_layout', [args_value(a)], [])
    log=[]
    ob = I.branch
    def br(cond):
        p0 = I.pos
        r = ob(cond)
        if I.pos != p0 and not I.in_summary: log.append((p0, str(z3.simplify(cond))[:80], r, I.stack[-1][-30:]))
        return r
    I.branch = br
    leaf, p = I.run_path('t_layout', [args_value(a)], prefix)
    return log, leaf, p
l1, leaf1, p1 = trace(dec[:-1], False)
l2, leaf2, p2 = trace(dec[:-1], True)
print(len(l1), len(l2), leaf1.kind, leaf2.kind, dec in p1, dec in p2)
for i,(x,y) in enumerate(zip(l1,l2)):
    if x!=y: print('DIFF at', i, x, y); break
for x in l1[40:48]: print(x)
print('----')
for i in range(28,38):
    print(i, 'COLD', l1[i][1].replace('\n',' ')[:75], l1[i][2], l1[i][3])
    print(i, 'WARM', l2[i][1].replace('\n',' ')[:75], l2[i][2], l2[i][3])
