"""Python models of the std / anyhow entry points that pyxis's semantic layer calls.  Each model follows the
documented contract of the function it stands for; every model used in a run is listed in the evidence file."""
import re
import z3
from .values import *
from .program import Unsupported, segs, clean_type
from .mir import split_top, strip_generics, match_close
from .interp import bv, zbool, to_range, MASK, int_type_of


def last_generic(raw):
    """the contents of the last `::<...>` group of a callee text, or ''"""
    i = raw.rfind('::<')
    while i >= 0:
        try:
            e = match_close(raw, i + 2)
        except ValueError:
            return ''
        if e == len(raw) - 1: return raw[i + 3:e]
        i = raw.rfind('::<', 0, i)
    return ''


def type_generic(raw):
    """for `Type::<A, B>::method` return 'A, B'"""
    m = re.search(r'::<', raw)
    if not m: return ''
    e = match_close(raw, m.end() - 1)
    return raw[m.end():e]


def norm_key(name):
    m = re.search(r'<impl (.*)>::(\w+)$', name)
    if m:
        t = m.group(1).strip()
        if t.startswith('['): t = 'slice'
        else: t = segs(strip_generics(t))[-1]
        return t + '::' + m.group(2)
    s = segs(name)
    return '::'.join(s[-2:]) if len(s) >= 2 else name


def and_(a, b):
    if a is False or b is False: return False
    if a is True: return b
    if b is True: return a
    return z3.And(zbool(a), zbool(b))


def not_(a):
    if isinstance(a, z3.ExprRef): return z3.Not(a)
    return not a


TABLE = {}


def model(*keys):
    def deco(fn):
        for k in keys: TABLE[k] = fn
        return fn
    return deco


class Models:
    def __init__(self, interp):
        self.I = interp
        self.impl_cache = {}

    def call(self, info, argv):
        if info[0] == 'trait':
            key = info[2] + '::' + info[3]
        else:
            key = norm_key(info[1])
        fn = TABLE.get(key)
        if fn is None:
            raise Unsupported('no model for `%s` (%s)' % (key, info[-1]))
        self.I.modelled.add(key)
        return fn(self, argv, info)

    # ------------------------------------------------------------------ helpers
    def find_impl(self, trait, method, adt_name):
        key = (trait, method, adt_name)
        if key in self.impl_cache: return self.impl_cache[key]
        want = tuple(segs(adt_name))
        hit = None
        for selfsegs, ta, f in self.I.prog.traitimpls.get((trait, method), []):
            if selfsegs and selfsegs[0] == '&': continue
            n = min(len(selfsegs), len(want))
            if n and selfsegs[-n:] == want[-n:]:
                hit = f; break
        self.impl_cache[key] = hit
        return hit

    def is_local_adt(self, v):
        return type(v) is Adt and v.name not in ('Option', 'Result', 'ControlFlow', 'Cow', 'Ordering', 'anyhow::Error') \
            and not v.name.startswith('std::') and not v.name.startswith('core::')

    def clone(self, v):
        t = type(v)
        if t is int or t is bool or t is str or t is SymStr or isinstance(v, z3.ExprRef): return v
        if t is Adt:
            if self.is_local_adt(v):
                f = self.find_impl('Clone', 'clone', v.name)
                if f is not None: return self.I.run_fn(f, [Ptr([v], 0)])
            return Adt(v.name, v.variant, v.vidx, [self.clone(x) for x in v.fields])
        if t is Tup: return Tup([self.clone(x) for x in v.fields])
        if t is RVec: return RVec([self.clone(x) for x in v.items])
        if t is Arr: return Arr([self.clone(x) for x in v.items])
        if t is BoxV: return BoxV(self.clone(v.cell[0]))
        if t is Ptr or t is FnItem or t is Slice or t is Opaque: return v
        if t is Closure: return Closure(v.loc, [self.clone(x) for x in v.fields])
        if t is RMap:
            m = RMap()
            for k, val in v.entries: self.map_insert(m, self.clone(k), self.clone(val))
            return m
        if t is RSet:
            s = RSet()
            for (k,) in v.entries: self.set_insert(s, self.clone(k))
            return s
        raise Unsupported('clone of %r' % (v,))

    def eq(self, a, b):
        """structural equality; pyxis ADTs go through their own (derived) PartialEq bodies"""
        while type(a) is Ptr: a = a.get()
        while type(b) is Ptr: b = b.get()
        if type(a) is BoxV: a = a.cell[0]
        if type(b) is BoxV: b = b.cell[0]
        while type(a) is Ptr: a = a.get()
        while type(b) is Ptr: b = b.get()
        ta = type(a); tb = type(b)
        if isinstance(a, z3.ExprRef) or isinstance(b, z3.ExprRef):
            if (isinstance(a, z3.ExprRef) and z3.is_bool(a)) or (isinstance(b, z3.ExprRef) and z3.is_bool(b)):
                return zbool(a) == zbool(b)
            w = a.size() if isinstance(a, z3.ExprRef) else b.size()
            return bv(a, w) == bv(b, w)
        if ta in (int, bool) and tb in (int, bool): return a == b
        if ta is str and tb is str: return a == b
        if ta is SymStr or tb is SymStr: return self.symstr_eq(a, b)
        if ta is Adt and tb is Adt:
            if a.vidx != b.vidx: return False
            if self.is_local_adt(a):
                f = self.find_impl('PartialEq', 'eq', a.name)
                if f is not None: return self.I.run_fn(f, [Ptr([a], 0), Ptr([b], 0)])
            return self.eq_seq(a.fields, b.fields)
        if ta is Tup and tb is Tup: return self.eq_seq(a.fields, b.fields)
        la = self.as_list(a); lb = self.as_list(b)
        if la is not None and lb is not None: return self.eq_seq(la, lb)
        if ta is RSet and tb is RSet:
            return set(a.index) == set(b.index)
        raise Unsupported('eq of %r and %r' % (a, b))

    def eq_seq(self, xs, ys):
        if len(xs) != len(ys): return False
        r = True
        for x, y in zip(xs, ys):
            e = self.eq(x, y)
            if e is False: return False
            r = and_(r, e)
        return r

    def symstr_eq(self, a, b):
        pa = a.parts if type(a) is SymStr else [a]
        pb = b.parts if type(b) is SymStr else [b]
        if len(pa) == len(pb) and all((isinstance(x, str) and isinstance(y, str)) or
                                      (not isinstance(x, str) and not isinstance(y, str) and x[0] == y[0])
                                      for x, y in zip(pa, pb)):
            r = True
            for x, y in zip(pa, pb):
                if isinstance(x, str):
                    if x != y: return False
                else:
                    r = and_(r, x[1] == y[1])
            return r
        # one side concrete, the other a template with one numeric hole
        if type(b) is SymStr and type(a) is str: a, b, pa, pb = b, a, pb, pa
        if type(b) is str:
            holes = [p for p in pa if not isinstance(p, str)]
            if len(holes) == 1:
                i = pa.index(holes[0])
                pre = ''.join(pa[:i]); suf = ''.join(pa[i + 1:])
                if not (b.startswith(pre) and b.endswith(suf) and len(b) >= len(pre) + len(suf)): return False
                mid = b[len(pre):len(b) - len(suf)] if suf else b[len(pre):]
                fmt, e = holes[0]
                try:
                    if fmt == 'dec':
                        if not re.fullmatch(r'0|[1-9][0-9]*', mid): return False
                        n = int(mid)
                    elif fmt == 'hex':
                        if not re.fullmatch(r'0|[1-9a-f][0-9a-f]*', mid): return False
                        n = int(mid, 16)
                    elif fmt == 'HEX':
                        if not re.fullmatch(r'0|[1-9A-F][0-9A-F]*', mid): return False
                        n = int(mid, 16)
                    else:
                        raise Unsupported('symstr eq fmt ' + fmt)
                except ValueError:
                    return False
                if n > MASK[e.size()]: return False
                return e == z3.BitVecVal(n, e.size())
        raise Unsupported('equality of symbolic strings %r == %r' % (a, b))

    def as_list(self, v):
        t = type(v)
        if t is RVec or t is Arr: return v.items
        if t is Slice: return v.items[v.start:v.end]
        return None

    def as_str(self, v):
        while type(v) is Ptr: v = v.get()
        if type(v) is str or type(v) is SymStr: return v
        if type(v) is Adt and len(v.fields) == 1: return self.as_str(v.fields[0])
        raise Unsupported('expected a string, got %r' % (v,))

    # maps / sets
    def _sym_int_key(self, k):
        kk = deref_all(k)
        return kk if (is_sym(kk) and z3.is_bv(kk) and not z3.is_bv_value(z3.simplify(kk))) else None

    def map_insert(self, m, k, v):
        sk = self._sym_int_key(k)
        if sk is not None or getattr(m, 'symkeys', False):
            # integer keys that are symbolic: equality with every existing key is decided by branching (one path per alias pattern);
            # look-ups by key on such a map are not modelled (Unsupported), insertion and ordered iteration are
            m.symkeys = True
            kk = deref_all(k)
            for e in m.entries:
                ek = deref_all(e[0])
                if not (is_sym(ek) or isinstance(ek, int)) or not (is_sym(kk) or isinstance(kk, int)):
                    raise Unsupported('map with symbolic keys of a non-integer type')
                w = kk.size() if is_sym(kk) else ek.size() if is_sym(ek) else 64
                if self.I.branch(bv(kk, w) == bv(ek, w)):
                    old = e[1]; e[1] = v
                    return SOME(old)
            e = [k, v]; m.entries.append(e); m.index[('symkey', len(m.entries))] = e
            return NONE()
        ck = canon(k)
        e = m.index.get(ck)
        if e is not None:
            old = e[1]; e[1] = v
            return SOME(old)
        e = [k, v]; m.entries.append(e); m.index[ck] = e
        return NONE()

    def set_insert(self, s, k):
        ck = canon(k)
        if ck in s.index: return False
        e = [k]; s.entries.append(e); s.index[ck] = e
        return True

    def ordered_entries(self, m):
        if getattr(m, 'ordered', False):       # BTreeMap / BTreeSet: key order, independent of any hash seed
            if getattr(m, 'symkeys', False):
                # insertion sort with the order of symbolic unsigned keys decided by branching
                out = []
                for e in m.entries:
                    ek = deref_all(e[0]); pos = len(out)
                    for i, o in enumerate(out):
                        ok_ = deref_all(o[0])
                        w = ek.size() if is_sym(ek) else ok_.size() if is_sym(ok_) else 64
                        if self.I.branch(z3.ULT(bv(ek, w), bv(ok_, w))):
                            pos = i; break
                    out.insert(pos, e)
                return out
            return sorted(m.entries, key=lambda e: canon(e[0]))
        if self.I.map_order is not None: return self.I.map_order(self.I, m)
        return list(m.entries)

    def default_for(self, ty):
        t = ty.strip()
        h = strip_generics(t)
        last = segs(h)[-1] if segs(h) else h
        if t.startswith('('):
            inner = t[1:-1].strip()
            return Tup([self.default_for(x) for x in split_top(inner)]) if inner else UNIT
        if last == 'Vec': return RVec([])
        if last == 'Option': return NONE()
        if last == 'String' or t in ('&str', "&'static str") or last == 'str': return ''
        if last == 'bool': return False
        if last in ('usize', 'isize', 'u8', 'u16', 'u32', 'u64', 'i8', 'i16', 'i32', 'i64', 'u128', 'i128'): return 0
        if last == 'HashMap': return RMap()
        if last == 'HashSet': return RSet()
        f = self.find_impl('Default', 'default', h)
        if f is not None: return self.I.run_fn(f, [])
        raise Unsupported('Default for ' + ty)

    def call_fn(self, fnv, args):
        return self.I.call_value(fnv, args)

    # formatting
    def render_args(self, fa, out):
        """append the rendering of a FmtArgs to list `out` (pieces: str or (fmt, z3 term))"""
        tpl = fa.template
        if isinstance(tpl, str):
            out.append(tpl); return
        i = 0; n = len(tpl); ai = 0
        while i < n:
            b = tpl[i]
            if b == 0: break
            if b < 0x80:
                out.append(tpl[i + 1:i + 1 + b].decode('utf8')); i += 1 + b
            elif b == 0x80:
                ln = tpl[i + 1] | (tpl[i + 2] << 8)
                out.append(tpl[i + 3:i + 3 + ln].decode('utf8')); i += 3 + ln
            elif b == 0xc0:
                self.render_arg(fa.args[ai], out); ai += 1; i += 1
            else:
                raise Unsupported('format template opcode 0x%02x in %r' % (b, tpl))

    def render_arg(self, a, out):
        v = a.ptr
        while type(v) is Ptr: v = v.get()
        k = a.kind
        if k == 'display': self.display(v, out)
        elif k == 'sdisplay':
            if isinstance(v, z3.ExprRef): out.append(('sdec', v))
            else: out.append(str(v))
        elif k == 'debug': self.debug(v, out)
        elif k in ('hex', 'HEX'):
            if isinstance(v, z3.ExprRef): out.append((k, v))
            else: out.append(('%x' if k == 'hex' else '%X') % v)
        else:
            raise Unsupported('format kind ' + k)

    def display(self, v, out):
        while type(v) is Ptr: v = v.get()
        t = type(v)
        if t is str: out.append(v)
        elif t is SymStr: out.extend(v.parts)
        elif t is bool: out.append('true' if v else 'false')
        elif t is int: out.append(str(v))
        elif isinstance(v, z3.ExprRef): out.append(('dec', v))
        elif t is BoxV: self.display(v.cell[0], out)
        elif t is Adt and v.name == 'anyhow::Error': self.display(v.fields[0], out)
        elif t is Adt:
            f = self.find_impl('Display', 'fmt', v.name)
            if f is None: raise Unsupported('Display for ' + v.name)
            fm = Fmtr()
            self.I.run_fn(f, [Ptr([v], 0), fm])
            out.extend(fm.buf)
        elif t is Opaque:
            out.append('out of range integral type conversion attempted' if v.what == 'TryFromIntError' else '<%s>' % v.what)
        else:
            raise Unsupported('Display of %r' % (v,))

    def debug(self, v, out):
        while type(v) is Ptr: v = v.get()
        t = type(v)
        if t is str: out.append('"' + v.replace('\\', '\\\\').replace('"', '\\"').replace('\n', '\\n') + '"')
        elif t is int or t is bool or isinstance(v, z3.ExprRef): self.display(v, out)
        elif t is RVec or t is Arr or t is Slice:
            out.append('[')
            for i, x in enumerate(self.as_list(v)):
                if i: out.append(', ')
                self.debug(x, out)
            out.append(']')
        elif t is Adt and v.name == 'Option':
            if v.vidx == 0: out.append('None')
            else:
                out.append('Some('); self.debug(v.fields[0], out); out.append(')')
        else:
            out.append('<?>')

    def to_string(self, pieces):
        if all(isinstance(p, str) for p in pieces): return ''.join(pieces)
        return SymStr(pieces)


# ====================================================================== misc
@model('must_use', 'hint::must_use', 'convert::identity', 'mem::drop')
def _identity(M, a, info):
    return a[0] if info[1].split('::')[-1] != 'drop' else UNIT


@model('panicking::panic')
def _panic(M, a, info):
    raise Panic(a[0] if isinstance(a[0], str) else repr(a[0]), 'panic')


@model('rt::panic_fmt', 'panicking::panic_fmt')
def _panic_fmt(M, a, info):
    out = []; M.render_args(a[0], out)
    raise Panic(''.join(p if isinstance(p, str) else '{}' for p in out), 'panic_fmt')


@model('panicking::panic_display', 'panicking::unreachable_display')
def _panic_display(M, a, info):
    out = []; M.display(a[0], out)
    raise Panic(''.join(p if isinstance(p, str) else '{}' for p in out), 'panic')


# ====================================================================== integers
def _int_ty(info):
    m = re.search(r'<impl (\w+)>', info[-1])
    return INT_TY[m.group(1)]


INT_TY = {'usize': (64, False), 'isize': (64, True), 'u8': (8, False), 'u16': (16, False), 'u32': (32, False),
          'u64': (64, False), 'i8': (8, True), 'i16': (16, True), 'i32': (32, True), 'i64': (64, True)}


def _checked(opname):
    def fn(M, a, info):
        ity = _int_ty(info)
        r = M.I.binop(opname, _opt(a[0]), _opt(a[1]), ity)
        if M.I.branch(r.fields[1]): return NONE()
        return SOME(r.fields[0])
    return fn


for _t in ('usize', 'isize', 'u8', 'u16', 'u32', 'u64', 'i8', 'i16', 'i32', 'i64'):
    TABLE[_t + '::checked_add'] = _checked('AddWithOverflow')
    TABLE[_t + '::checked_sub'] = _checked('SubWithOverflow')
    TABLE[_t + '::checked_mul'] = _checked('MulWithOverflow')


@model('usize::saturating_sub')
def _saturating_sub(M, a, info):
    x, y = a
    if not is_sym(x) and not is_sym(y): return max(0, x - y)
    zx = bv(x, 64); zy = bv(y, 64)
    return z3.If(z3.UGE(zx, zy), zx - zy, z3.BitVecVal(0, 64))


@model('Ord::max')
def _ord_max(M, a, info):
    x, y = a
    ity = int_type_of(clean_type(info[1]))
    if not is_sym(x) and not is_sym(y): return max(x, y)
    w, s = ity
    zx = bv(x, w); zy = bv(y, w)
    # Ord::max returns the second argument when equal
    return z3.If((zx > zy) if s else z3.UGT(zx, zy), zx, zy)


@model('Ord::min')
def _ord_min(M, a, info):
    x, y = a
    ity = int_type_of(clean_type(info[1]))
    if not is_sym(x) and not is_sym(y): return min(x, y)
    w, s = ity
    zx = bv(x, w); zy = bv(y, w)
    return z3.If((zx <= zy) if s else z3.ULE(zx, zy), zx, zy)


@model('usize::is_power_of_two')
def _is_pow2(M, a, info):
    x = a[0]
    if not is_sym(x): return x != 0 and (x & (x - 1)) == 0
    return z3.And(x != 0, (x & (x - 1)) == 0)


for _t in ('usize', 'isize', 'u8', 'u16', 'u32', 'u64', 'i8', 'i16', 'i32', 'i64'):
    for _o, _mir in (('wrapping_add', 'Add'), ('wrapping_sub', 'Sub'), ('wrapping_mul', 'Mul')):
        def _mkw(mirop):
            def fn(M, a, info):
                return M.I.binop(mirop, _opt(a[0]), _opt(a[1]), _int_ty(info))
            return fn
        TABLE[_t + '::' + _o] = _mkw(_mir)


@model('usize::pow')
def _wrapping(M, a, info):
    op = info[1].split('::')[-1]
    x, y = a
    if op == 'pow': raise Unsupported('pow')
    if not is_sym(x) and not is_sym(y):
        r = x + y if op == 'wrapping_add' else x - y if op == 'wrapping_sub' else x * y
        return r & MASK[64]
    zx = bv(x, 64); zy = bv(y, 64)
    return zx + zy if op == 'wrapping_add' else zx - zy if op == 'wrapping_sub' else zx * zy


@model('Mul::mul')
def _mul(M, a, info):
    # <usize as Mul>::mul : overflow-checked in this build profile
    ity = int_type_of(clean_type(info[1]))
    a = [_opt(x) for x in a]
    r = M.I.binop('MulWithOverflow', a[0], a[1], ity)
    if M.I.branch(r.fields[1]): raise Panic('attempt to multiply with overflow', 'Mul::mul')
    return r.fields[0]


@model('Add::add')
def _add(M, a, info):
    ity = int_type_of(clean_type(info[1]))
    a = [_opt(x) for x in a]
    r = M.I.binop('AddWithOverflow', a[0], a[1], ity)
    if M.I.branch(r.fields[1]): raise Panic('attempt to add with overflow', 'Add::add')
    return r.fields[0]


@model('TryInto::try_into', 'TryFrom::try_from')
def _try_into(M, a, info):
    src = int_type_of(clean_type(info[1])) if info[3] == 'try_into' else None
    tgt = int_type_of(clean_type(info[4])) if info[3] == 'try_into' else int_type_of(clean_type(info[1]))
    if info[3] == 'try_from': src = int_type_of(clean_type(info[4]))
    if src is None or tgt is None: raise Unsupported('try_into ' + info[-1])
    v = a[0]
    tw, ts = tgt; sw, ss = src
    lo, hi = (-(1 << (tw - 1)), (1 << (tw - 1)) - 1) if ts else (0, MASK[tw])
    if not is_sym(v):
        return OK(v) if lo <= v <= hi else ERR(Opaque('TryFromIntError'))
    # symbolic: compare in a width that holds both ranges
    W = max(tw, sw) + 1
    ext = z3.SignExt(W - sw, v) if ss else z3.ZeroExt(W - sw, v)
    inr = z3.And(ext >= z3.BitVecVal(lo, W), ext <= z3.BitVecVal(hi, W))
    if M.I.branch(inr):
        if tw == sw: return OK(v)
        if tw < sw: return OK(z3.Extract(tw - 1, 0, v))
        return OK(z3.SignExt(tw - sw, v) if ss else z3.ZeroExt(tw - sw, v))
    return ERR(Opaque('TryFromIntError'))


# ====================================================================== bool
@model('bool::then')
def _bool_then(M, a, info):
    if M.I.branch(a[0]): return SOME(M.call_fn(a[1], []))
    return NONE()


@model('bool::then_some')
def _bool_then_some(M, a, info):
    if M.I.branch(a[0]): return SOME(a[1])
    return NONE()


# ====================================================================== Option / Result
def _opt(v):
    while type(v) is Ptr: v = v.get()
    return v


@model('Option::map')
def _option_map(M, a, info):
    o = a[0]
    return SOME(M.call_fn(a[1], [o.fields[0]])) if o.vidx == 1 else NONE()


@model('Option::and_then')
def _option_and_then(M, a, info):
    o = a[0]
    return M.call_fn(a[1], [o.fields[0]]) if o.vidx == 1 else NONE()


@model('Option::filter')
def _option_filter(M, a, info):
    o = a[0]
    if o.vidx == 1 and M.I.branch(M.call_fn(a[1], [Ptr(o.fields, 0)])): return o
    return NONE()


@model('Option::or')
def _option_or(M, a, info):
    return a[0] if a[0].vidx == 1 else a[1]


@model('Option::or_else')
def _option_or_else(M, a, info):
    return a[0] if a[0].vidx == 1 else M.call_fn(a[1], [])


@model('Option::ok_or_else')
def _option_ok_or_else(M, a, info):
    return OK(a[0].fields[0]) if a[0].vidx == 1 else ERR(M.call_fn(a[1], []))


@model('Option::ok_or')
def _option_ok_or(M, a, info):
    return OK(a[0].fields[0]) if a[0].vidx == 1 else ERR(a[1])


@model('Option::unwrap')
def _option_unwrap(M, a, info):
    if a[0].vidx == 1: return a[0].fields[0]
    raise Panic('called `Option::unwrap()` on a `None` value', 'Option::unwrap')


@model('Option::expect')
def _option_expect(M, a, info):
    if a[0].vidx == 1: return a[0].fields[0]
    raise Panic(str(a[1]), 'Option::expect')


@model('Option::unwrap_or')
def _option_unwrap_or(M, a, info):
    return a[0].fields[0] if a[0].vidx == 1 else a[1]


@model('Option::unwrap_or_else')
def _option_unwrap_or_else(M, a, info):
    return a[0].fields[0] if a[0].vidx == 1 else M.call_fn(a[1], [])


@model('Option::unwrap_or_default')
def _option_unwrap_or_default(M, a, info):
    return a[0].fields[0] if a[0].vidx == 1 else M.default_for(type_generic(info[-1]))


@model('Option::is_some')
def _option_is_some(M, a, info): return _opt(a[0]).vidx == 1


@model('Option::is_none')
def _option_is_none(M, a, info): return _opt(a[0]).vidx == 0


@model('Option::is_some_and')
def _option_is_some_and(M, a, info):
    return M.call_fn(a[1], [a[0].fields[0]]) if a[0].vidx == 1 else False


@model('Option::as_ref', 'Option::as_mut')
def _option_as_ref(M, a, info):
    o = _opt(a[0])
    return SOME(Ptr(o.fields, 0)) if o.vidx == 1 else NONE()


@model('Option::as_deref')
def _option_as_deref(M, a, info):
    o = _opt(a[0])
    if o.vidx == 0: return NONE()
    v = o.fields[0]
    if type(v) is str or type(v) is SymStr: return SOME(v)
    if type(v) is RVec: return SOME(Slice(v.items, 0, len(v.items)))
    if type(v) is BoxV: return SOME(Ptr(v.cell, 0))
    raise Unsupported('as_deref on %r' % (v,))


@model('Option::flatten')
def _option_flatten(M, a, info):
    return a[0].fields[0] if a[0].vidx == 1 else NONE()


@model('Option::transpose')
def _option_transpose(M, a, info):
    o = a[0]
    if o.vidx == 0: return OK(NONE())
    r = o.fields[0]
    return OK(SOME(r.fields[0])) if r.vidx == 0 else ERR(r.fields[0])


@model('Option::cloned', 'Option::copied')
def _option_cloned(M, a, info):
    o = a[0]
    return SOME(M.clone(_opt(o.fields[0]))) if o.vidx == 1 else NONE()


@model('Option::take')
def _option_take(M, a, info):
    p = a[0]; o = p.get(); p.set(NONE()); return o


@model('Option::get_or_insert_with')
def _option_get_or_insert_with(M, a, info):
    p = a[0]; o = p.get()
    if o.vidx == 0:
        o = SOME(M.call_fn(a[1], [])); p.set(o)
    return Ptr(o.fields, 0)


@model('Option::insert')
def _option_insert(M, a, info):
    o = SOME(a[1]); a[0].set(o); return Ptr(o.fields, 0)


@model('Result::map')
def _result_map(M, a, info):
    r = a[0]
    return OK(M.call_fn(a[1], [r.fields[0]])) if r.vidx == 0 else r


@model('Result::map_err')
def _result_map_err(M, a, info):
    r = a[0]
    return r if r.vidx == 0 else ERR(M.call_fn(a[1], [r.fields[0]]))


@model('Result::and_then')
def _result_and_then(M, a, info):
    r = a[0]
    return M.call_fn(a[1], [r.fields[0]]) if r.vidx == 0 else r


@model('Result::ok')
def _result_ok(M, a, info):
    r = a[0]
    return SOME(r.fields[0]) if r.vidx == 0 else NONE()


@model('Result::is_ok')
def _result_is_ok(M, a, info): return _opt(a[0]).vidx == 0


@model('Result::is_err')
def _result_is_err(M, a, info): return _opt(a[0]).vidx == 1


@model('Result::as_ref')
def _result_as_ref(M, a, info):
    r = _opt(a[0])
    return OK(Ptr(r.fields, 0)) if r.vidx == 0 else ERR(Ptr(r.fields, 0))


@model('Result::unwrap', 'Result::expect')
def _result_unwrap(M, a, info):
    if a[0].vidx == 0: return a[0].fields[0]
    out = []
    try: M.display(a[0].fields[0], out)
    except Unsupported: out = ['<error>']
    raise Panic('called `Result::unwrap()` on an `Err` value: ' + ''.join(p if isinstance(p, str) else '{}' for p in out), 'Result::unwrap')


@model('Result::unwrap_or')
def _result_unwrap_or(M, a, info):
    return a[0].fields[0] if a[0].vidx == 0 else a[1]


@model('Result::unwrap_or_default')
def _result_unwrap_or_default(M, a, info):
    return a[0].fields[0] if a[0].vidx == 0 else M.default_for(split_top(type_generic(info[-1]))[0])


@model('Try::branch')
def _try_branch(M, a, info):
    v = a[0]
    if v.name == 'Result':
        if v.vidx == 0: return Adt('ControlFlow', 'Continue', 0, [v.fields[0]])
        return Adt('ControlFlow', 'Break', 1, [ERR(v.fields[0])])
    if v.name == 'Option':
        if v.vidx == 1: return Adt('ControlFlow', 'Continue', 0, [v.fields[0]])
        return Adt('ControlFlow', 'Break', 1, [NONE()])
    raise Unsupported('Try::branch on %r' % (v,))


@model('FromResidual::from_residual')
def _from_residual(M, a, info):
    r = a[0]
    if r.name == 'Result':
        e = r.fields[0]
        if 'anyhow::Error' in info[1] and not (type(e) is Adt and e.name == 'anyhow::Error'):
            out = []
            try: M.display(e, out)
            except Unsupported: out = [repr(e)]
            e = mk_error(M.to_string(out))
        return ERR(e)
    if r.name == 'Option': return NONE()
    raise Unsupported('from_residual %r' % (r,))


# ====================================================================== anyhow
@model('__private::format_err')
def _format_err(M, a, info):
    out = []; M.render_args(a[0], out)
    return mk_error(M.to_string(out))


@model('Error::msg')
def _error_msg(M, a, info):
    out = []; M.display(a[0], out)
    return mk_error(M.to_string(out))


@model('Error::new')
def _error_new(M, a, info):
    out = []; M.display(a[0], out)
    return mk_error(M.to_string(out))


@model('Error::context')
def _error_context(M, a, info):
    out = []; M.display(a[1], out)
    return mk_error(M.to_string(out), a[0])


@model('Context::with_context')
def _with_context(M, a, info):
    v = a[0]
    if v.name == 'Result':
        if v.vidx == 0: return v
        cause = v.fields[0]
        if not (type(cause) is Adt and cause.name == 'anyhow::Error'):
            out = []; M.display(cause, out); cause = mk_error(M.to_string(out))
        c = M.call_fn(a[1], [])
        out = []; M.display(c, out)
        return ERR(mk_error(M.to_string(out), cause))
    if v.vidx == 1: return OK(v.fields[0])
    c = M.call_fn(a[1], [])
    out = []; M.display(c, out)
    return ERR(mk_error(M.to_string(out)))


@model('Context::context')
def _context(M, a, info):
    v = a[0]
    if v.name == 'Result':
        if v.vidx == 0: return v
        out = []; M.display(a[1], out)
        return ERR(mk_error(M.to_string(out), v.fields[0]))
    if v.vidx == 1: return OK(v.fields[0])
    out = []; M.display(a[1], out)
    return ERR(mk_error(M.to_string(out)))


@model('Error::chain')
def _error_chain(M, a, info):
    e = _opt(a[0])
    def gen():
        x = e
        while x is not None:
            yield x
            x = x.fields[1]
    return It(gen())


@model('anyhow::Ok')
def _anyhow_ok(M, a, info): return OK(a[0])


# ====================================================================== fmt
@model('Argument::new_display')
def _arg_display(M, a, info):
    t = last_generic(info[-1]).strip()
    return FmtArg('sdisplay' if t in ('isize', 'i8', 'i16', 'i32', 'i64', 'i128') else 'display', a[0])


@model('Argument::new_debug')
def _arg_debug(M, a, info): return FmtArg('debug', a[0])


@model('Argument::new_lower_hex')
def _arg_lhex(M, a, info): return FmtArg('hex', a[0])


@model('Argument::new_upper_hex')
def _arg_uhex(M, a, info): return FmtArg('HEX', a[0])


@model('Arguments::new')
def _arguments_new(M, a, info):
    tpl = a[0]
    while type(tpl) is Ptr: tpl = tpl.get()
    if type(tpl) is Arr: tpl = bytes(tpl.items)
    args = a[1]
    while type(args) is Ptr: args = args.get()
    return FmtArgs(tpl, M.as_list(args))


@model('Arguments::from_str', 'Arguments::new_const')
def _arguments_from_str(M, a, info):
    s = a[0]
    while type(s) is Ptr: s = s.get()
    if type(s) is Arr or type(s) is Slice: s = ''.join(M.as_list(s))
    return FmtArgs(s, [])


@model('format', 'fmt::format')
def _format(M, a, info):
    out = []; M.render_args(a[0], out)
    return M.to_string(out)


@model('Formatter::write_fmt')
def _formatter_write_fmt(M, a, info):
    f = _opt(a[0])
    M.render_args(a[1], f.buf)
    return OK(UNIT)


@model('Formatter::write_str')
def _formatter_write_str(M, a, info):
    f = _opt(a[0]); s = a[1]
    if type(s) is SymStr: f.buf.extend(s.parts)
    else: f.buf.append(s)
    return OK(UNIT)


@model('Write::write_fmt')
def _string_write_fmt(M, a, info):
    p = a[0]
    out = []; M.render_args(a[1], out)
    p.set(concat_str(p.get(), M.to_string(out)))
    return OK(UNIT)


@model('Write::write_str')
def _string_write_str(M, a, info):
    p = a[0]; p.set(concat_str(p.get(), a[1])); return OK(UNIT)


@model('Display::fmt')
def _display_fmt(M, a, info):
    f = _opt(a[1])
    M.display(a[0], f.buf)
    return OK(UNIT)


@model('Debug::fmt')
def _debug_fmt(M, a, info):
    f = _opt(a[1])
    M.debug(a[0], f.buf)
    return OK(UNIT)


for _n in ('debug_struct_field1_finish', 'debug_struct_field2_finish', 'debug_struct_field3_finish',
           'debug_struct_field4_finish', 'debug_struct_field5_finish', 'debug_struct_fields_finish',
           'debug_tuple_field1_finish', 'debug_tuple_field2_finish', 'debug_tuple_field3_finish'):
    def _mk(n):
        @model('Formatter::' + n)
        def _dbg(M, a, info):
            _opt(a[0]).buf.append('<?>')
            return OK(UNIT)
    _mk(_n)


@model('ToString::to_string')
def _to_string(M, a, info):
    out = []; M.display(a[0], out)
    return M.to_string(out)


# ====================================================================== String / str
@model('String::new')
def _string_new(M, a, info): return ''


@model('String::as_str', 'String::as_mut_str', 'String::as_ref')
def _string_as_str(M, a, info): return M.as_str(a[0])


@model('String::is_empty', 'str::is_empty')
def _string_is_empty(M, a, info):
    s = M.as_str(a[0])
    return s == '' if type(s) is str else len(s.parts) == 0


@model('String::len', 'str::len')
def _string_len(M, a, info):
    s = M.as_str(a[0])
    if type(s) is str: return len(s.encode('utf8'))
    raise Unsupported('len of symbolic string')


@model('String::push_str')
def _string_push_str(M, a, info):
    p = a[0]; p.set(concat_str(p.get(), M.as_str(a[1]))); return UNIT


@model('String::push')
def _string_push(M, a, info):
    p = a[0]; p.set(concat_str(p.get(), chr(a[1]))); return UNIT


@model('String::from', 'ToOwned::to_owned', 'str::to_owned', 'str::to_string', 'String::clone')
def _string_from(M, a, info):
    v = a[0]
    if type(v) is Slice: return RVec([M.clone(x) for x in M.as_list(v)])
    return M.as_str(v)


@model('str::starts_with')
def _str_starts_with(M, a, info):
    s = M.as_str(a[0]); p = a[1]
    while type(p) is Ptr: p = p.get()
    if isinstance(p, int): p = chr(p)
    if type(s) is SymStr:
        if isinstance(s.parts[0], str) and len(s.parts[0]) >= len(p): return s.parts[0].startswith(p)
        raise Unsupported('starts_with on symbolic string')
    return s.startswith(p)


@model('str::ends_with')
def _str_ends_with(M, a, info):
    s = M.as_str(a[0]); p = M.as_str(a[1])
    if type(s) is SymStr: raise Unsupported('ends_with on symbolic string')
    return s.endswith(p)


@model('str::split')
def _str_split(M, a, info):
    s = M.as_str(a[0]); p = M.as_str(a[1])
    return It(iter(s.split(p)))


@model('str::lines')
def _str_lines(M, a, info):
    s = M.as_str(a[0])
    ls = s.split('\n')
    if ls and ls[-1] == '': ls.pop()
    return It(iter([l[:-1] if l.endswith('\r') else l for l in ls]))


@model('str::trim')
def _str_trim(M, a, info): return M.as_str(a[0]).strip()


@model('str::to_uppercase')
def _str_upper(M, a, info): return M.as_str(a[0]).upper()


@model('str::parse')
def _str_parse(M, a, info):
    tgt = last_generic(info[-1]) or ''
    s = M.as_str(a[0])
    f = M.find_impl('FromStr', 'from_str', strip_generics(tgt))
    if f is not None: return M.I.run_fn(f, [s])
    raise Unsupported('str::parse::<%s>' % tgt)


@model('slice::join')
def _slice_join(M, a, info):
    items = [M.as_str(x) for x in M.as_list(a[0])]
    sep = M.as_str(a[1])
    out = ''
    for i, x in enumerate(items):
        if i: out = concat_str(out, sep)
        out = concat_str(out, x)
    return out


# ====================================================================== Box
@model('Box::new')
def _box_new(M, a, info): return BoxV(a[0])


@model('AsRef::as_ref', 'Borrow::borrow')
def _as_ref(M, a, info):
    v = a[0]
    t = v.get() if type(v) is Ptr else v
    if type(t) is BoxV: return Ptr(t.cell, 0)
    if type(t) is str or type(t) is SymStr: return t
    if type(t) is RVec: return Slice(t.items, 0, len(t.items))
    if type(t) is Adt and t.name == 'Cow': return M.as_str(t.fields[0])
    return v


# ====================================================================== conversions
@model('Into::into', 'From::from')
def _into(M, a, info):
    v = a[0]
    if info[3] == 'into':
        tgt = info[4]
        src = info[1]
    else:
        tgt = info[1]; src = info[4]
    tgt = tgt.strip()
    th = strip_generics(tgt)
    tl = segs(th)[-1] if segs(th) else th
    if tl == 'String':
        return M.as_str(v)
    if tl == 'Option':
        if type(v) is Adt and v.name == 'Option': return v
        inner = split_top(tgt[tgt.index('<') + 1:-1])[0] if '<' in tgt else ''
        if inner and strip_generics(inner).split('::')[-1] == 'String' and type(v) in (str, SymStr): return SOME(v)
        return SOME(v)
    if tl == 'Vec':
        if type(v) is RVec: return v
        if type(v) is Arr: return RVec(list(v.items))
        if type(v) is Slice: return RVec([M.clone(x) for x in M.as_list(v)])
        if type(v) is Ptr and type(v.get()) is Arr: return RVec([M.clone(x) for x in v.get().items])
    if tl == 'Box': return BoxV(v)
    if tl in INT_TY or tl in ('u128', 'i128'):
        return v
    if tl == 'Error' and 'anyhow' in tgt:
        if type(v) is Adt and v.name == 'anyhow::Error': return v
        out = []; M.display(v, out); return mk_error(M.to_string(out))
    # identity conversion (T: Into<T>)
    if type(v) is Adt:
        vs = tuple(segs(v.name)); ts = tuple(segs(th))
        n = min(len(vs), len(ts))
        if n and vs[-n:] == ts[-n:]: return v
    # user From impls
    cands = M.I.prog.traitimpls.get(('From', 'from'), [])
    ts = tuple(segs(th))
    hits = [f for (selfsegs, ta, f) in cands if selfsegs[-len(ts):] == ts] if ts else []
    if hits:
        if len(hits) > 1:
            # choose by the runtime value kind
            def fits(f):
                at = f.arg_tys[0]
                if type(v) in (str, SymStr): return 'str' in at or 'String' in at
                if type(v) is Adt: return segs(v.name)[-1] in at
                return True
            hh = [f for f in hits if fits(f)]
            if hh: hits = hh
        return M.I.run_fn(hits[0], [v])
    raise Unsupported('Into::into -> %s from %r (%s)' % (tgt, v, info[-1]))


# ====================================================================== Clone / PartialEq / Default / Ord
@model('Clone::clone')
def _clone(M, a, info):
    v = a[0]
    while type(v) is Ptr: v = v.get()
    return M.clone(v)


@model('PartialEq::eq')
def _eq(M, a, info): return M.eq(a[0], a[1])


@model('PartialEq::ne')
def _ne(M, a, info): return not_(M.eq(a[0], a[1]))


@model('Default::default')
def _default(M, a, info): return M.default_for(info[1])


def _cmp_key(M, v):
    return canon(v)


def _ordering(c): return Adt('Ordering', ['Less', 'Equal', 'Greater'][c + 1], c + 1, [])


@model('Ord::cmp')
def _ord_cmp(M, a, info):
    x = _cmp_key(M, a[0]); y = _cmp_key(M, a[1])
    return _ordering(-1 if x < y else 1 if x > y else 0)


@model('PartialOrd::partial_cmp')
def _partial_cmp(M, a, info):
    x = _cmp_key(M, a[0]); y = _cmp_key(M, a[1])
    return SOME(_ordering(-1 if x < y else 1 if x > y else 0))


@model('Hash::hash')
def _hash(M, a, info): return UNIT


# ====================================================================== Vec / slices
@model('Vec::new', 'Vec::with_capacity')
def _vec_new(M, a, info): return RVec([])


@model('Vec::push')
def _vec_push(M, a, info):
    a[0].get().items.append(a[1]); return UNIT


@model('Vec::pop')
def _vec_pop(M, a, info):
    it = a[0].get().items
    return SOME(it.pop()) if it else NONE()


@model('Vec::len', 'slice::len')
def _vec_len(M, a, info): return M.I.len_of(a[0])


@model('Vec::is_empty', 'slice::is_empty')
def _vec_is_empty(M, a, info): return M.I.len_of(a[0]) == 0


@model('Vec::as_slice', 'Vec::as_mut_slice', 'Deref::deref', 'DerefMut::deref_mut')
def _deref(M, a, info):
    v = a[0]
    t = v.get() if type(v) is Ptr else v
    if type(t) is RVec: return Slice(t.items, 0, len(t.items))
    if type(t) is str or type(t) is SymStr: return t
    if type(t) is BoxV: return Ptr(t.cell, 0)
    if type(t) is Arr: return Slice(t.items, 0, len(t.items))
    if type(t) is Slice: return t
    raise Unsupported('deref of %r' % (t,))


@model('Vec::extend', 'Extend::extend')
def _vec_extend(M, a, info):
    tgt = a[0].get()
    for x in M.iterate(a[1]):
        if type(tgt) is RVec: tgt.items.append(x)
        elif type(tgt) is RSet: M.set_insert(tgt, x)
        elif type(tgt) is RMap: M.map_insert(tgt, x.fields[0], x.fields[1])
        else: raise Unsupported('extend of %r' % (tgt,))
    return UNIT


@model('Vec::dedup')
def _vec_dedup(M, a, info):
    items = a[0].get().items
    out = []
    for x in items:
        if out and M.I.branch(M.eq(out[-1], x)): continue
        out.append(x)
    items[:] = out
    return UNIT


@model('Vec::retain')
def _vec_retain(M, a, info):
    items = a[0].get().items
    keep = [x for i, x in enumerate(list(items)) if M.I.branch(M.call_fn(a[1], [Ptr(items, i)]))]
    items[:] = keep
    return UNIT


@model('Vec::truncate')
def _vec_truncate(M, a, info):
    n = M.I.concretize(a[1]); del a[0].get().items[n:]; return UNIT


@model('Vec::remove')
def _vec_remove(M, a, info):
    items = a[0].get().items; i = M.I.concretize(a[1])
    if not (0 <= i < len(items)): raise Panic('removal index (is %d) should be < len (is %d)' % (i, len(items)), 'Vec::remove')
    return items.pop(i)


@model('Vec::reverse', 'slice::reverse')
def _vec_reverse(M, a, info):
    s = a[0]
    if type(s) is Ptr: s = _deref(M, [s], info)
    seg = s.items[s.start:s.end]; seg.reverse(); s.items[s.start:s.end] = seg
    return UNIT


@model('Vec::append')
def _vec_append(M, a, info):
    src = a[1].get().items; a[0].get().items.extend(src); del src[:]; return UNIT


@model('Vec::clear')
def _vec_clear(M, a, info):
    del a[0].get().items[:]; return UNIT


@model('Vec::insert')
def _vec_insert(M, a, info):
    a[0].get().items.insert(M.I.concretize(a[1]), a[2]); return UNIT


@model('slice::to_vec', 'Vec::from')
def _to_vec(M, a, info):
    v = a[0]
    if type(v) is RVec: return v
    lst = M.as_list(_opt(v))
    if lst is None: raise Unsupported('to_vec of %r' % (v,))
    return RVec([M.clone(x) for x in lst])


@model('slice::last', 'Vec::last', 'slice::last_mut', 'Vec::last_mut')
def _slice_last(M, a, info):
    s = a[0]
    if type(s) is Ptr: s = _deref(M, [s], info)
    return SOME(Ptr(s.items, s.end - 1)) if s.end > s.start else NONE()


@model('slice::first', 'Vec::first', 'slice::first_mut', 'Vec::first_mut')
def _slice_first(M, a, info):
    s = a[0]
    if type(s) is Ptr: s = _deref(M, [s], info)
    return SOME(Ptr(s.items, s.start)) if s.end > s.start else NONE()


@model('slice::get', 'Vec::get')
def _slice_get(M, a, info):
    s = a[0]
    if type(s) is Ptr: s = _deref(M, [s], info)
    i = M.I.concretize(a[1])
    return SOME(Ptr(s.items, s.start + i)) if 0 <= i < s.end - s.start else NONE()


@model('slice::contains', 'Vec::contains')
def _slice_contains(M, a, info):
    s = a[0]
    if type(s) is Ptr: s = _deref(M, [s], info)
    for x in M.as_list(s):
        if M.I.branch(M.eq(x, a[1])): return True
    return False


@model('slice::iter', 'slice::iter_mut', 'Vec::iter', 'Vec::iter_mut')
def _slice_iter(M, a, info):
    s = a[0]
    if type(s) is Ptr: s = _deref(M, [s], info)
    if type(s) is RVec or type(s) is Arr: s = Slice(s.items, 0, len(s.items))
    items = s.items
    return It(Ptr(items, i) for i in range(s.start, s.end))


@model('slice::sort', 'Vec::sort', 'slice::sort_unstable')
def _slice_sort(M, a, info):
    s = a[0]
    if type(s) is Ptr: s = _deref(M, [s], info)
    seg = sorted(s.items[s.start:s.end], key=canon)
    s.items[s.start:s.end] = seg
    return UNIT


@model('slice::sort_by_key', 'slice::sort_by_cached_key')
def _slice_sort_by_key(M, a, info):
    s = a[0]
    if type(s) is Ptr: s = _deref(M, [s], info)
    items = s.items
    idx = list(range(s.start, s.end))
    keys = {i: canon(M.call_fn(a[1], [Ptr(items, i)])) for i in idx}
    seg = [items[i] for i in sorted(idx, key=lambda i: keys[i])]
    items[s.start:s.end] = seg
    return UNIT


@model('Index::index', 'IndexMut::index_mut')
def _index(M, a, info):
    c = _opt(a[0]); k = a[1]
    if type(c) is RMap:
        e = c.index.get(canon(k))
        if e is None: raise Panic('key not found in HashMap index', 'Index::index')
        return Ptr(e, 1)
    if type(k) is FnItem and k.name.endswith('RangeFull'):
        k = Adt('RangeFull', None, None, [])
    if type(k) is Adt and 'Range' in k.name:
        lst = c.items if type(c) in (RVec, Arr) else None
        base = 0; n = len(lst) if lst is not None else None
        if type(c) is Slice: lst = c.items; base = c.start; n = c.end - c.start
        nm = segs(k.name)[-1]
        lo = 0; hi = n
        if nm == 'Range': lo, hi = k.fields
        elif nm == 'RangeTo': hi = k.fields[0]
        elif nm == 'RangeFrom': lo = k.fields[0]
        elif nm == 'RangeFull': pass
        else: raise Unsupported('index by ' + k.name)
        lo = M.I.concretize(lo); hi = M.I.concretize(hi)
        if lo > hi: raise Panic('slice index starts at %d but ends at %d' % (lo, hi), 'Index::index')
        if hi > n: raise Panic('range end index %d out of range for slice of length %d' % (hi, n), 'Index::index')
        return Slice(lst, base + lo, base + hi)
    i = M.I.concretize(k)
    cc, kk = M.I.index_into(c, i)
    return Ptr(cc, kk)


# ====================================================================== iterators
def _iterate(M, v):
    """Python iterator over the items of a Rust iterable value"""
    t = type(v)
    if t is It: return v.gen
    if t is RVec or t is Arr: return iter(list(v.items))
    if t is Slice: return (Ptr(v.items, i) for i in range(v.start, v.end))
    if t is Ptr:
        inner = v.get(); ti = type(inner)
        if ti is RVec or ti is Arr: return (Ptr(inner.items, i) for i in range(len(inner.items)))
        if ti is RMap: return (Tup([Ptr(e, 0), Ptr(e, 1)]) for e in M.ordered_entries(inner))
        if ti is RSet: return (Ptr(e, 0) for e in M.ordered_entries(inner))
        if ti is Slice: return _iterate(M, inner)
        if ti is Adt and ti is not None and inner.name == 'Option':
            return iter([Ptr(inner.fields, 0)] if inner.vidx == 1 else [])
        if ti is Adt:
            f = M.find_ref_into_iter(inner)
            if f is not None: return _iterate(M, M.I.run_fn(f, [v]))
    if t is RMap: return (Tup([e[0], e[1]]) for e in M.ordered_entries(v))
    if t is RSet: return (e[0] for e in M.ordered_entries(v))
    if t is Adt and v.name == 'Option': return iter([v.fields[0]] if v.vidx == 1 else [])
    if t is Adt and segs(v.name)[-1] == 'Range': return _range_gen(M, v)
    if t is Adt:
        f = M.find_impl('IntoIterator', 'into_iter', v.name)
        if f is not None: return _iterate(M, M.I.run_fn(f, [v]))
    raise Unsupported('cannot iterate %r' % (v,))


def _find_ref_into_iter(self, adt):
    want = tuple(segs(adt.name))
    for selfsegs, ta, f in self.I.prog.traitimpls.get(('IntoIterator', 'into_iter'), []):
        if selfsegs and selfsegs[0] == '&':
            cs = selfsegs[1:]
            n = min(len(cs), len(want))
            if n and cs[-n:] == want[-n:]: return f
    return None


Models.iterate = lambda self, v: _iterate(self, v)
Models.find_ref_into_iter = _find_ref_into_iter


LOOP_LIMIT = 4096


def _range_bound_check(M, r, lo, hi):
    """a loop over a range whose length is symbolic: if the path condition allows more than LOOP_LIMIT iterations, that
    part of the input space is reported as one `unbounded` leaf instead of being unrolled"""
    if not (is_sym(lo) or is_sym(hi)): return
    key = id(r)
    if key in M.I.checked_ranges: return
    M.I.checked_ranges[key] = r
    zl = bv(lo, 64); zh = bv(hi, 64)
    if M.I.branch(z3.And(z3.ULT(zl, zh), z3.UGT(zh - zl, z3.BitVecVal(LOOP_LIMIT, 64)))):
        raise Unbounded('loop over a range of more than %d iterations (length depends on the input) in %s' % (LOOP_LIMIT, M.I.stack[-1] if M.I.stack else '?'))


def _range_gen(M, r):
    first = True
    while True:
        lo, hi = r.fields[0], r.fields[1]
        if first:
            _range_bound_check(M, r, lo, hi); first = False
        if is_sym(lo) or is_sym(hi):
            c = z3.ULT(bv(lo, 64), bv(hi, 64))
        else:
            c = lo < hi
        if not M.I.branch(c): return
        r.fields[0] = (lo + 1) if not is_sym(lo) else lo + 1
        yield lo


@model('RangeInclusive::new')
def _range_inclusive_new(M, a, info):
    # modelled as the half-open range start..end+1 (end == MAX would overflow: rejected)
    hi = a[1]
    if is_sym(hi):
        if M.I.branch(hi == z3.BitVecVal(MASK[64], 64)): raise Unsupported('RangeInclusive ending at usize::MAX')
        return Adt('Range', None, None, [a[0], hi + 1])
    return Adt('Range', None, None, [a[0], hi + 1])


@model('IntoIterator::into_iter', 'Iterator::by_ref', 'Option::iter', 'Option::into_iter', 'HashMap::iter',
       'HashSet::iter', 'HashMap::iter_mut', 'HashMap::into_iter')
def _into_iter(M, a, info):
    v = a[0]
    if type(v) is It: return v
    if type(v) is Adt and segs(v.name)[-1] in ('Range', 'RangeFrom'): return v
    return It(_iterate(M, v))


@model('HashMap::values', 'HashMap::values_mut')
def _map_values(M, a, info):
    m = _opt(a[0])
    return It(Ptr(e, 1) for e in M.ordered_entries(m))


@model('HashMap::keys')
def _map_keys(M, a, info):
    m = _opt(a[0])
    return It(Ptr(e, 0) for e in M.ordered_entries(m))


@model('HashMap::into_values')
def _map_into_values(M, a, info):
    return It(e[1] for e in M.ordered_entries(_opt(a[0])))      # owned values, not references


@model('HashMap::into_keys')
def _map_into_keys(M, a, info):
    return It(e[0] for e in M.ordered_entries(_opt(a[0])))


@model('Iterator::next')
def _iter_next(M, a, info):
    it = a[0]
    while type(it) is Ptr: it = it.get()
    if type(it) is Adt and segs(it.name)[-1] == 'Range':
        lo, hi = it.fields[0], it.fields[1]
        _range_bound_check(M, it, lo, hi)
        c = z3.ULT(bv(lo, 64), bv(hi, 64)) if (is_sym(lo) or is_sym(hi)) else lo < hi
        if M.I.branch(c):
            it.fields[0] = lo + 1
            return SOME(lo)
        return NONE()
    if type(it) is Adt and segs(it.name)[-1] == 'RangeFrom':
        # `for i in lo..`: never exhausted; the loop body has to leave it.  More than LOOP_LIMIT steps: reported, not unrolled
        lo = it.fields[0]
        if not is_sym(lo):
            start = M.I.checked_ranges.setdefault(('from', id(it)), lo)
            if lo - start > LOOP_LIMIT:
                raise Unbounded('loop over an open range ran for more than %d iterations in %s' % (LOOP_LIMIT, M.I.stack[-1] if M.I.stack else '?'))
        it.fields[0] = lo + 1
        return SOME(lo)
    try:
        return SOME(next(it.gen))
    except StopIteration:
        return NONE()


@model('DoubleEndedIterator::next_back')
def _iter_next_back(M, a, info):
    raise Unsupported('next_back')


@model('Iterator::map')
def _iter_map(M, a, info):
    src = _iterate(M, a[0]); f = a[1]
    return It(M.call_fn(f, [x]) for x in src)


@model('Iterator::filter')
def _iter_filter(M, a, info):
    src = _iterate(M, a[0]); f = a[1]
    def gen():
        for x in src:
            if M.I.branch(M.call_fn(f, [Ptr([x], 0)])): yield x
    return It(gen())


@model('Iterator::filter_map')
def _iter_filter_map(M, a, info):
    src = _iterate(M, a[0]); f = a[1]
    def gen():
        for x in src:
            r = M.call_fn(f, [x])
            if r.vidx == 1: yield r.fields[0]
    return It(gen())


@model('Iterator::flat_map')
def _iter_flat_map(M, a, info):
    src = _iterate(M, a[0]); f = a[1]
    def gen():
        for x in src:
            for y in _iterate(M, M.call_fn(f, [x])): yield y
    return It(gen())


@model('Iterator::flatten')
def _iter_flatten(M, a, info):
    src = _iterate(M, a[0])
    def gen():
        for x in src:
            for y in _iterate(M, x): yield y
    return It(gen())


@model('Iterator::enumerate')
def _iter_enumerate(M, a, info):
    src = _iterate(M, a[0])
    return It(Tup([i, x]) for i, x in enumerate(src))


@model('Iterator::zip')
def _iter_zip(M, a, info):
    s1 = _iterate(M, a[0]); s2 = _iterate(M, a[1])
    return It(Tup([x, y]) for x, y in zip(s1, s2))


@model('Iterator::chain')
def _iter_chain(M, a, info):
    s1 = _iterate(M, a[0]); s2 = a[1]
    def gen():
        for x in s1: yield x
        for y in _iterate(M, s2): yield y
    return It(gen())


@model('Iterator::rev')
def _iter_rev(M, a, info):
    return It(reversed(list(_iterate(M, a[0]))))


@model('Iterator::skip')
def _iter_skip(M, a, info):
    n = M.I.concretize(a[1]); src = _iterate(M, a[0])
    def gen():
        for i, x in enumerate(src):
            if i >= n: yield x
    return It(gen())


@model('Iterator::take')
def _iter_take(M, a, info):
    n = M.I.concretize(a[1]); src = _iterate(M, a[0])
    def gen():
        for i, x in enumerate(src):
            if i >= n: return
            yield x
    return It(gen())


@model('Iterator::cloned', 'Iterator::copied')
def _iter_cloned(M, a, info):
    src = _iterate(M, a[0])
    def gen():
        for x in src:
            v = x.get() if type(x) is Ptr else x
            yield M.clone(v)
    return It(gen())


@model('Iterator::find')
def _iter_find(M, a, info):
    it = _opt(a[0]) if type(a[0]) is Ptr else a[0]
    for x in _iterate(M, it):
        if M.I.branch(M.call_fn(a[1], [Ptr([x], 0)])): return SOME(x)
    return NONE()


@model('Iterator::find_map')
def _iter_find_map(M, a, info):
    it = _opt(a[0]) if type(a[0]) is Ptr else a[0]
    for x in _iterate(M, it):
        r = M.call_fn(a[1], [x])
        if r.vidx == 1: return r
    return NONE()


@model('Iterator::position')
def _iter_position(M, a, info):
    it = _opt(a[0]) if type(a[0]) is Ptr else a[0]
    for i, x in enumerate(_iterate(M, it)):
        if M.I.branch(M.call_fn(a[1], [x])): return SOME(i)
    return NONE()


@model('Iterator::any')
def _iter_any(M, a, info):
    it = _opt(a[0]) if type(a[0]) is Ptr else a[0]
    for x in _iterate(M, it):
        if M.I.branch(M.call_fn(a[1], [x])): return True
    return False


@model('Iterator::all')
def _iter_all(M, a, info):
    it = _opt(a[0]) if type(a[0]) is Ptr else a[0]
    for x in _iterate(M, it):
        if not M.I.branch(M.call_fn(a[1], [x])): return False
    return True


@model('Iterator::count')
def _iter_count(M, a, info):
    return sum(1 for _ in _iterate(M, a[0]))


@model('Iterator::last')
def _iter_last(M, a, info):
    r = NONE()
    for x in _iterate(M, a[0]): r = SOME(x)
    return r


@model('Iterator::fold')
def _iter_fold(M, a, info):
    acc = a[1]
    for x in _iterate(M, a[0]): acc = M.call_fn(a[2], [acc, x])
    return acc


@model('Iterator::for_each')
def _iter_for_each(M, a, info):
    for x in _iterate(M, a[0]): M.call_fn(a[1], [x])
    return UNIT


@model('Iterator::sum')
def _iter_sum(M, a, info):
    ity = int_type_of(clean_type(last_generic(info[-1]) or 'usize')) or (64, False)
    acc = 0
    for x in _iterate(M, a[0]):
        v = x.get() if type(x) is Ptr else x
        r = M.I.binop('AddWithOverflow', acc, v, ity)
        if M.I.branch(r.fields[1]): raise Panic('attempt to add with overflow', 'Iterator::sum')
        acc = r.fields[0]
    return acc


@model('Iterator::max')
def _iter_max(M, a, info):
    items = [x.get() if type(x) is Ptr else x for x in _iterate(M, a[0])]
    if not items: return NONE()
    acc = items[0]
    for v in items[1:]:
        if is_sym(acc) or is_sym(v):
            acc = z3.If(z3.UGT(bv(acc, 64), bv(v, 64)), bv(acc, 64), bv(v, 64))
        else: acc = max(acc, v)
    return SOME(acc)


@model('Iterator::partition')
def _iter_partition(M, a, info):
    l = []; r = []
    for x in _iterate(M, a[0]):
        (l if M.I.branch(M.call_fn(a[1], [Ptr([x], 0)])) else r).append(x)
    return Tup([RVec(l), RVec(r)])


def _collect_into(M, tgt, src, info):
    t = tgt.strip()
    h = strip_generics(t)
    last = segs(h)[-1] if segs(h) else h
    if last == 'Vec' or h.startswith('['):
        return RVec(list(src))
    if last in ('HashSet', 'BTreeSet'):
        s = RSet(); s.ordered = (last == 'BTreeSet')
        for x in src: M.set_insert(s, x)
        return s
    if last in ('HashMap', 'BTreeMap'):
        m = RMap(); m.ordered = (last == 'BTreeMap')
        for x in src: M.map_insert(m, x.fields[0], x.fields[1])
        return m
    if last == 'String':
        out = ''
        for x in src:
            out = concat_str(out, chr(x) if isinstance(x, int) else M.as_str(x))
        return out
    if last == 'Result':
        inner = split_top(t[t.index('<') + 1:t.rindex('>')])[0]
        okvals = []
        for x in src:
            if x.vidx == 1: return ERR(x.fields[0])
            okvals.append(x.fields[0])
        return OK(_collect_into(M, inner, iter(okvals), info))
    if last == 'Option':
        inner = split_top(t[t.index('<') + 1:t.rindex('>')])[0]
        vals = []
        for x in src:
            if x.vidx == 0: return NONE()
            vals.append(x.fields[0])
        return SOME(_collect_into(M, inner, iter(vals), info))
    f = M.find_impl('FromIterator', 'from_iter', h)
    if f is not None: return M.I.run_fn(f, [It(src)])
    raise Unsupported('collect into ' + tgt)


@model('Iterator::collect')
def _iter_collect(M, a, info):
    tgt = last_generic(info[-1])
    if not tgt: raise Unsupported('collect without target type: ' + info[-1])
    return _collect_into(M, tgt, _iterate(M, a[0]), info)


@model('FromIterator::from_iter')
def _from_iter(M, a, info):
    return _collect_into(M, info[1], _iterate(M, a[0]), info)


@model('Vec::from_iter')
def _vec_from_iter(M, a, info):
    return RVec(list(_iterate(M, a[0])))


@model('once', 'iter::once')
def _once(M, a, info): return It(iter([a[0]]))


@model('iter::empty', 'empty')
def _empty(M, a, info): return It(iter([]))


@model('FnMut::call_mut', 'FnOnce::call_once', 'Fn::call')
def _call_mut(M, a, info):
    f = a[0]; args = a[1]
    return M.call_fn(f, list(args.fields))


# ====================================================================== HashMap / HashSet
@model('HashMap::new', 'HashMap::with_capacity')
def _map_new(M, a, info): return RMap()


@model('HashSet::new', 'HashSet::with_capacity')
def _set_new(M, a, info): return RSet()


@model('HashMap::insert')
def _map_insert(M, a, info): return M.map_insert(a[0].get(), a[1], a[2])


def _no_symkeys(m):
    if getattr(m, 'symkeys', False): raise Unsupported('look-up by key on a map with symbolic integer keys')
    return m


@model('HashMap::get')
def _map_get(M, a, info):
    e = _no_symkeys(_opt(a[0])).index.get(canon(a[1]))
    return SOME(Ptr(e, 1)) if e is not None else NONE()


@model('HashMap::get_mut')
def _map_get_mut(M, a, info): return _map_get(M, a, info)


@model('HashMap::contains_key')
def _map_contains_key(M, a, info): return canon(a[1]) in _no_symkeys(_opt(a[0])).index


@model('HashMap::remove')
def _map_remove(M, a, info):
    m = _no_symkeys(_opt(a[0])); ck = canon(a[1])
    e = m.index.pop(ck, None)
    if e is None: return NONE()
    m.entries.remove(e)
    return SOME(e[1])


@model('HashMap::len', 'HashSet::len')
def _map_len(M, a, info): return len(_opt(a[0]).entries)


@model('HashMap::is_empty', 'HashSet::is_empty')
def _map_is_empty(M, a, info): return len(_opt(a[0]).entries) == 0


@model('HashMap::entry')
def _map_entry(M, a, info): return Adt('Entry', None, None, [a[0], a[1]])


@model('Entry::or_default')
def _entry_or_default(M, a, info):
    mp, k = a[0].fields
    m = _no_symkeys(mp.get())
    e = m.index.get(canon(k))
    if e is None:
        tys = split_top(type_generic(info[-1]))
        tys = [t for t in tys if not t.startswith("'")]
        M.map_insert(m, k, M.default_for(tys[1]))
        e = m.index[canon(k)]
    return Ptr(e, 1)


@model('Entry::or_insert')
def _entry_or_insert(M, a, info):
    mp, k = a[0].fields
    m = _no_symkeys(mp.get())
    e = m.index.get(canon(k))
    if e is None:
        M.map_insert(m, k, a[1]); e = m.index[canon(k)]
    return Ptr(e, 1)


@model('Entry::or_insert_with')
def _entry_or_insert_with(M, a, info):
    mp, k = a[0].fields
    m = _no_symkeys(mp.get())
    e = m.index.get(canon(k))
    if e is None:
        M.map_insert(m, k, M.call_fn(a[1], [])); e = m.index[canon(k)]
    return Ptr(e, 1)


@model('HashSet::insert')
def _set_insert(M, a, info): return M.set_insert(a[0].get(), a[1])


@model('HashSet::contains')
def _set_contains(M, a, info): return canon(a[1]) in _opt(a[0]).index


@model('HashSet::remove')
def _set_remove(M, a, info):
    s = _opt(a[0]); ck = canon(a[1])
    e = s.index.pop(ck, None)
    if e is None: return False
    s.entries.remove(e); return True


# ====================================================================== vec![] lowering (Box<MaybeUninit<[T; N]>>)
@model('Box::new_uninit')
def _box_new_uninit(M, a, info):
    mu = Adt('MaybeUninit', None, None, [UNIT, Adt('ManuallyDrop', None, None, [Adt('MaybeDangling', None, None, [None])])])
    return BoxV(mu)


@model('boxed::box_assume_init_into_vec_unsafe')
def _box_into_vec(M, a, info):
    arr = a[0].cell[0].fields[1].fields[0].fields[0]
    return RVec(list(arr.items))


# ====================================================================== additional std models (contracts as documented in std)
import functools


def _ord_of(M, r):
    """Ordering Adt -> -1/0/1"""
    r = _opt(r)
    return r.vidx - 1


@model('slice::sort_by', 'slice::sort_unstable_by', 'Vec::sort_by')
def _sort_by(M, a, info):
    s = a[0]
    if type(s) is Ptr: s = _deref(M, [s], info)
    items = s.items; idx = list(range(s.start, s.end))
    def cmp(i, j): return _ord_of(M, M.call_fn(a[1], [Ptr(items, i), Ptr(items, j)]))
    seg = [items[i] for i in sorted(idx, key=functools.cmp_to_key(cmp))]
    items[s.start:s.end] = seg
    return UNIT


@model('slice::sort_unstable_by_key')
def _sort_unstable_by_key(M, a, info): return _slice_sort_by_key(M, a, info)


@model('slice::binary_search')
def _binary_search(M, a, info):
    s = a[0]
    if type(s) is Ptr: s = _deref(M, [s], info)
    key = canon(a[1])
    lst = [canon(x) for x in M.as_list(s)]
    import bisect
    i = bisect.bisect_left(lst, key)
    return OK(i) if i < len(lst) and lst[i] == key else ERR(i)


@model('slice::starts_with')
def _slice_starts_with(M, a, info):
    s = M.as_list(_deref(M, [a[0]], info) if type(a[0]) is Ptr else a[0]); p = M.as_list(_deref(M, [a[1]], info) if type(a[1]) is Ptr else a[1])
    if len(p) > len(s): return False
    return M.eq_seq(s[:len(p)], p)


@model('slice::split_first', 'slice::split_last')
def _split_first(M, a, info):
    s = a[0]
    if type(s) is Ptr: s = _deref(M, [s], info)
    if s.end <= s.start: return NONE()
    if info[1].endswith('split_first'): return SOME(Tup([Ptr(s.items, s.start), Slice(s.items, s.start + 1, s.end)]))
    return SOME(Tup([Ptr(s.items, s.end - 1), Slice(s.items, s.start, s.end - 1)]))


@model('slice::split_at')
def _split_at(M, a, info):
    s = a[0]
    if type(s) is Ptr: s = _deref(M, [s], info)
    n = M.I.concretize(a[1])
    if n > s.end - s.start: raise Panic('mid > len', 'split_at')
    return Tup([Slice(s.items, s.start, s.start + n), Slice(s.items, s.start + n, s.end)])


@model('slice::windows', 'slice::chunks')
def _windows(M, a, info):
    s = a[0]
    if type(s) is Ptr: s = _deref(M, [s], info)
    n = M.I.concretize(a[1])
    if n == 0: raise Panic('size is zero', 'windows')
    if info[1].endswith('windows'):
        return It(Slice(s.items, i, i + n) for i in range(s.start, s.end - n + 1))
    return It(Slice(s.items, i, min(i + n, s.end)) for i in range(s.start, s.end, n))


@model('slice::concat')
def _slice_concat(M, a, info):
    out = []
    for x in M.as_list(_opt(a[0])):
        x = _opt(x)
        if type(x) in (str, SymStr):
            out = concat_str(out if out != [] else '', x)
        else: out = (out if out != [] else []) + list(M.as_list(x))
    return out if isinstance(out, (str, SymStr)) else RVec(out)


def _key_lt(M, x, y):
    """x < y for sort keys that may contain symbolic integers (ints, Option<int>, tuples of those): decided by branching"""
    x = deref_all(x); y = deref_all(y)
    if type(x) is Adt and type(y) is Adt and x.name.split('::')[-1] == 'Option' and y.name.split('::')[-1] == 'Option':
        if x.vidx != y.vidx: return x.vidx < y.vidx            # None < Some(_)
        if x.vidx == 0: return False
        return _key_lt(M, x.fields[0], y.fields[0])
    if type(x) is Tup and type(y) is Tup:
        for u, v in zip(x.fields, y.fields):
            if _key_lt(M, u, v): return True
            if _key_lt(M, v, u): return False
        return False
    if (is_sym(x) or isinstance(x, int)) and (is_sym(y) or isinstance(y, int)) and not isinstance(x, bool) and not isinstance(y, bool):
        if not is_sym(x) and not is_sym(y): return x < y
        w = x.size() if is_sym(x) else y.size()
        return M.I.branch(z3.ULT(bv(x, w), bv(y, w)))           # keys met so far are unsigned sizes / alignments / addresses
    return canon(x) < canon(y)


def _has_sym(v):
    v = deref_all(v)
    if is_sym(v): return True
    if type(v) in (Adt, Tup): return any(_has_sym(f) for f in v.fields)
    return False


@model('Iterator::min', 'Iterator::min_by_key', 'Iterator::max_by_key')
def _iter_minmax(M, a, info):
    op = info[3]
    items = list(_iterate(M, a[0]))
    if not items: return NONE()
    rawkeys = [x if op == 'min' else M.call_fn(a[1], [Ptr([x], 0)]) for x in items]
    if any(_has_sym(k) for k in rawkeys):
        best = 0
        for i in range(1, len(items)):
            if op in ('min', 'min_by_key'):
                if _key_lt(M, rawkeys[i], rawkeys[best]): best = i
            else:
                if not _key_lt(M, rawkeys[i], rawkeys[best]): best = i       # max_by_key returns the last maximum
        return SOME(items[best])
    keys = [canon(k) for k in rawkeys]
    if op in ('min', 'min_by_key'):
        best = 0
        for i in range(1, len(items)):
            if keys[i] < keys[best]: best = i
    else:
        best = 0
        for i in range(1, len(items)):
            if keys[i] >= keys[best]: best = i       # max_by_key returns the last maximum
    return SOME(items[best])


@model('Iterator::nth')
def _iter_nth(M, a, info):
    n = M.I.concretize(a[1]); it = _opt(a[0]) if type(a[0]) is Ptr else a[0]
    for i, x in enumerate(_iterate(M, it)):
        if i == n: return SOME(x)
    return NONE()


@model('Iterator::take_while', 'Iterator::skip_while')
def _iter_take_while(M, a, info):
    src = _iterate(M, a[0]); f = a[1]; take = info[3] == 'take_while'
    def gen():
        dropping = True
        for x in src:
            if take:
                if not M.I.branch(M.call_fn(f, [Ptr([x], 0)])): return
                yield x
            else:
                if dropping and M.I.branch(M.call_fn(f, [Ptr([x], 0)])): continue
                dropping = False
                yield x
    return It(gen())


@model('Iterator::step_by')
def _iter_step_by(M, a, info):
    n = M.I.concretize(a[1]); src = _iterate(M, a[0])
    return It(x for i, x in enumerate(src) if i % n == 0)


@model('Iterator::peekable', 'Iterator::fuse')
def _iter_peekable(M, a, info): return a[0] if type(a[0]) is It else It(_iterate(M, a[0]))


@model('Iterator::unzip')
def _iter_unzip(M, a, info):
    l = []; r = []
    for x in _iterate(M, a[0]): l.append(x.fields[0]); r.append(x.fields[1])
    return Tup([RVec(l), RVec(r)])


@model('Iterator::rposition')
def _iter_rposition(M, a, info):
    items = list(_iterate(M, _opt(a[0]) if type(a[0]) is Ptr else a[0]))
    for i in range(len(items) - 1, -1, -1):
        if M.I.branch(M.call_fn(a[1], [items[i]])): return SOME(i)
    return NONE()


@model('Iterator::product')
def _iter_product(M, a, info):
    ity = int_type_of(clean_type(last_generic(info[-1]) or 'usize')) or (64, False)
    acc = 1
    for x in _iterate(M, a[0]):
        v = x.get() if type(x) is Ptr else x
        r = M.I.binop('MulWithOverflow', acc, v, ity)
        if M.I.branch(r.fields[1]): raise Panic('attempt to multiply with overflow', 'Iterator::product')
        acc = r.fields[0]
    return acc


@model('iter::repeat', 'repeat')
def _iter_repeat(M, a, info):
    def gen():
        while True: yield M.clone(a[0])
    return It(gen())


@model('iter::zip', 'zip')
def _iter_zip_fn(M, a, info):
    return It(Tup([x, y]) for x, y in zip(_iterate(M, a[0]), _iterate(M, a[1])))


@model('Option::map_or')
def _option_map_or(M, a, info):
    return M.call_fn(a[2], [a[0].fields[0]]) if a[0].vidx == 1 else a[1]


@model('Option::map_or_else')
def _option_map_or_else(M, a, info):
    return M.call_fn(a[2], [a[0].fields[0]]) if a[0].vidx == 1 else M.call_fn(a[1], [])


@model('Option::and')
def _option_and(M, a, info): return a[1] if a[0].vidx == 1 else NONE()


@model('Option::xor')
def _option_xor(M, a, info):
    if a[0].vidx == 1 and a[1].vidx == 0: return a[0]
    if a[0].vidx == 0 and a[1].vidx == 1: return a[1]
    return NONE()


@model('Option::zip')
def _option_zip(M, a, info):
    return SOME(Tup([a[0].fields[0], a[1].fields[0]])) if a[0].vidx == 1 and a[1].vidx == 1 else NONE()


@model('Option::replace')
def _option_replace(M, a, info):
    old = a[0].get(); a[0].set(SOME(a[1])); return old


@model('Option::is_none_or')
def _option_is_none_or(M, a, info):
    return True if a[0].vidx == 0 else M.call_fn(a[1], [a[0].fields[0]])


@model('Result::unwrap_or_else')
def _result_unwrap_or_else(M, a, info):
    return a[0].fields[0] if a[0].vidx == 0 else M.call_fn(a[1], [a[0].fields[0]])


@model('Result::or_else')
def _result_or_else(M, a, info):
    return a[0] if a[0].vidx == 0 else M.call_fn(a[1], [a[0].fields[0]])


@model('Result::ok_or', 'Result::err')
def _result_err(M, a, info):
    return SOME(a[0].fields[0]) if a[0].vidx == 1 else NONE()


@model('Result::map_or')
def _result_map_or(M, a, info):
    return M.call_fn(a[2], [a[0].fields[0]]) if a[0].vidx == 0 else a[1]


@model('mem::take')
def _mem_take(M, a, info):
    p = a[0]; old = p.get(); p.set(M.default_for(last_generic(info[-1]) or 'Vec')); return old


@model('mem::replace')
def _mem_replace(M, a, info):
    p = a[0]; old = p.get(); p.set(a[1]); return old


@model('mem::swap')
def _mem_swap(M, a, info):
    x = a[0].get(); a[0].set(a[1].get()); a[1].set(x); return UNIT


@model('cmp::max', 'cmp::min')
def _cmp_max(M, a, info):
    x, y = a
    mx = info[1].endswith('max')
    if not is_sym(x) and not is_sym(y): return (max(x, y) if mx else min(x, y))
    ity = int_type_of(clean_type(last_generic(info[-1]) or 'usize')) or (64, False)
    w, s = ity
    zx = bv(x, w); zy = bv(y, w)
    gt = (zx > zy) if s else z3.UGT(zx, zy)
    return z3.If(gt, zx, zy) if mx else z3.If(gt, zy, zx)


def _int_unary(name):
    def deco(fn):
        for t in ('usize', 'isize', 'u8', 'u16', 'u32', 'u64', 'i8', 'i16', 'i32', 'i64'):
            TABLE[t + '::' + name] = fn
        return fn
    return deco


@_int_unary('min')
def _int_min(M, a, info):
    w, s = _int_ty(info); x, y = _opt(a[0]), _opt(a[1])
    if not is_sym(x) and not is_sym(y): return min(x, y)
    zx = bv(x, w); zy = bv(y, w)
    return z3.If((zx <= zy) if s else z3.ULE(zx, zy), zx, zy)


@_int_unary('max')
def _int_max(M, a, info):
    w, s = _int_ty(info); x, y = _opt(a[0]), _opt(a[1])
    if not is_sym(x) and not is_sym(y): return max(x, y)
    zx = bv(x, w); zy = bv(y, w)
    return z3.If((zx >= zy) if s else z3.UGE(zx, zy), zx, zy)


@_int_unary('abs_diff')
def _abs_diff(M, a, info):
    w, s = _int_ty(info); x, y = _opt(a[0]), _opt(a[1])
    if not is_sym(x) and not is_sym(y): return abs(x - y)
    zx = bv(x, w); zy = bv(y, w)
    return z3.If((zx >= zy) if s else z3.UGE(zx, zy), zx - zy, zy - zx)


@_int_unary('is_multiple_of')
def _is_multiple_of(M, a, info):
    x, y = _opt(a[0]), _opt(a[1])
    if not is_sym(x) and not is_sym(y): return (x == 0) if y == 0 else x % y == 0
    zx = bv(x, 64); zy = bv(y, 64)
    return z3.If(zy == 0, zx == 0, z3.URem(zx, zy) == 0)


@_int_unary('div_ceil')
def _div_ceil(M, a, info):
    w, s = _int_ty(info); x, y = _opt(a[0]), _opt(a[1])
    if M.I.branch((y == 0) if not is_sym(y) else (bv(y, w) == 0)): raise Panic('attempt to divide by zero', 'div_ceil')
    if not is_sym(x) and not is_sym(y): return -(-x // y)
    zx = bv(x, w); zy = bv(y, w)
    q = z3.UDiv(zx, zy)
    return z3.If(z3.URem(zx, zy) == 0, q, q + 1)


@_int_unary('next_multiple_of')
def _next_multiple_of(M, a, info):
    w, s = _int_ty(info); x, y = _opt(a[0]), _opt(a[1])
    if M.I.branch((y == 0) if not is_sym(y) else (bv(y, w) == 0)): raise Panic('attempt to calculate the remainder with a divisor of zero', 'next_multiple_of')
    rem = M.I.binop('Rem', x, y, (w, s))
    if M.I.branch((rem == 0) if not is_sym(rem) else (rem == 0)): return x
    d = M.I.binop('Sub', y, rem, (w, s))
    r = M.I.binop('AddWithOverflow', x, d, (w, s))
    if M.I.branch(r.fields[1]): raise Panic('attempt to add with overflow', 'next_multiple_of')
    return r.fields[0]


@_int_unary('trailing_zeros')
def _trailing_zeros(M, a, info):
    w, s = _int_ty(info); x = _opt(a[0])
    if not is_sym(x):
        x &= MASK[w]
        return w if x == 0 else (x & -x).bit_length() - 1
    r = z3.BitVecVal(w, 32)
    for i in range(w - 1, -1, -1):
        r = z3.If(z3.Extract(i, i, x) == 1, z3.BitVecVal(i, 32), r)
    return r


@_int_unary('count_ones')
def _count_ones(M, a, info):
    w, s = _int_ty(info); x = _opt(a[0])
    if not is_sym(x): return bin(x & MASK[w]).count('1')
    r = z3.BitVecVal(0, 32)
    for i in range(w): r = r + z3.ZeroExt(31, z3.Extract(i, i, x))
    return r


@_int_unary('checked_div')
def _checked_div(M, a, info):
    w, s = _int_ty(info); x, y = _opt(a[0]), _opt(a[1])
    if M.I.branch((y == 0) if not is_sym(y) else (bv(y, w) == 0)): return NONE()
    return SOME(M.I.binop('Div', x, y, (w, s)))


@_int_unary('checked_rem')
def _checked_rem(M, a, info):
    w, s = _int_ty(info); x, y = _opt(a[0]), _opt(a[1])
    if M.I.branch((y == 0) if not is_sym(y) else (bv(y, w) == 0)): return NONE()
    return SOME(M.I.binop('Rem', x, y, (w, s)))


@_int_unary('checked_next_power_of_two')
def _checked_npo2(M, a, info):
    x = _opt(a[0])
    if is_sym(x): raise Unsupported('checked_next_power_of_two on a symbolic value')
    p = 1
    while p < x: p <<= 1
    return SOME(p) if p <= MASK[64] else NONE()


for _o, _mir in (('overflowing_add', 'AddWithOverflow'), ('overflowing_sub', 'SubWithOverflow'), ('overflowing_mul', 'MulWithOverflow')):
    def _mko(mirop):
        def fn(M, a, info):
            return M.I.binop(mirop, _opt(a[0]), _opt(a[1]), _int_ty(info))
        return fn
    for _t in ('usize', 'isize', 'u8', 'u16', 'u32', 'u64', 'i8', 'i16', 'i32', 'i64'):
        TABLE[_t + '::' + _o] = _mko(_mir)


@model('usize::saturating_add', 'usize::saturating_mul')
def _saturating(M, a, info):
    op = 'AddWithOverflow' if info[1].endswith('add') else 'MulWithOverflow'
    r = M.I.binop(op, _opt(a[0]), _opt(a[1]), (64, False))
    ovf = r.fields[1]
    if ovf is True: return MASK[64]
    if ovf is False: return r.fields[0]
    return z3.If(ovf, z3.BitVecVal(MASK[64], 64), bv(r.fields[0], 64))


@model('str::contains')
def _str_contains(M, a, info):
    s = M.as_str(a[0]); p = a[1]
    while type(p) is Ptr: p = p.get()
    if isinstance(p, int): p = chr(p)
    if type(s) is SymStr: raise Unsupported('contains on symbolic string')
    return M.as_str(p) in s


@model('str::strip_prefix', 'str::strip_suffix')
def _str_strip(M, a, info):
    s = M.as_str(a[0]); p = M.as_str(a[1])
    if type(s) is SymStr: raise Unsupported('strip on symbolic string')
    if info[1].endswith('prefix'): return SOME(s[len(p):]) if s.startswith(p) else NONE()
    return SOME(s[:len(s) - len(p)]) if s.endswith(p) else NONE()


@model('str::to_lowercase')
def _str_lower(M, a, info): return M.as_str(a[0]).lower()


@model('str::chars')
def _str_chars(M, a, info): return It(iter([ord(c) for c in M.as_str(a[0])]))


@model('str::rsplit', 'str::split_whitespace')
def _str_rsplit(M, a, info):
    s = M.as_str(a[0])
    if info[1].endswith('split_whitespace'): return It(iter(s.split()))
    return It(iter(list(reversed(s.split(M.as_str(a[1]))))))


@model('String::with_capacity')
def _string_with_capacity(M, a, info): return ''


@model('String::insert_str')
def _string_insert_str(M, a, info):
    p = a[0]; i = M.I.concretize(a[1]); s = p.get()
    if type(s) is SymStr: raise Unsupported('insert_str on symbolic string')
    p.set(s[:i] + M.as_str(a[2]) + s[i:]); return UNIT


# ---- ordered maps/sets: same entry model, iteration in key order (never subject to the hash-order hook)
@model('BTreeMap::new')
def _btm_new(M, a, info):
    m = RMap(); m.ordered = True; return m


@model('BTreeSet::new')
def _bts_new(M, a, info):
    s = RSet(); s.ordered = True; return s


for _n in ('insert', 'get', 'get_mut', 'contains_key', 'remove', 'len', 'is_empty', 'entry', 'iter', 'values', 'values_mut', 'keys', 'iter_mut', 'into_iter',
           'into_values', 'into_keys'):
    if 'HashMap::' + _n in TABLE: TABLE['BTreeMap::' + _n] = TABLE['HashMap::' + _n]
for _n in ('insert', 'contains', 'remove', 'len', 'is_empty', 'iter'):
    if 'HashSet::' + _n in TABLE: TABLE['BTreeSet::' + _n] = TABLE['HashSet::' + _n]


# ====================================================================== more integer / range models
@_int_unary('checked_next_multiple_of')
def _checked_next_multiple_of(M, a, info):
    w, s = _int_ty(info); x, y = _opt(a[0]), _opt(a[1])
    if M.I.branch((y == 0) if not is_sym(y) else (bv(y, w) == 0)): return NONE()
    rem = M.I.binop('Rem', x, y, (w, s))
    if M.I.branch((rem == 0) if not is_sym(rem) else (rem == 0)): return SOME(x)
    d = M.I.binop('Sub', y, rem, (w, s))
    r = M.I.binop('AddWithOverflow', x, d, (w, s))
    if M.I.branch(r.fields[1]): return NONE()
    return SOME(r.fields[0])


@_int_unary('next_power_of_two')
def _next_power_of_two(M, a, info):
    x = _opt(a[0])
    if is_sym(x):
        x = M.I.concretize(x, 'next_power_of_two argument')
    p = 1
    while p < x: p <<= 1
    if p > MASK[64]: raise Panic('attempt to add with overflow', 'next_power_of_two')
    return p


@_int_unary('clamp')
def _clamp(M, a, info):
    w, s = _int_ty(info); x, lo, hi = _opt(a[0]), _opt(a[1]), _opt(a[2])
    if not any(is_sym(v) for v in (x, lo, hi)):
        if lo > hi: raise Panic('assertion failed: min <= max', 'clamp')
        return min(max(x, lo), hi)
    zx, zl, zh = bv(x, w), bv(lo, w), bv(hi, w)
    lt = (lambda p, q: p < q) if s else z3.ULT
    if M.I.branch(lt(zh, zl)): raise Panic('assertion failed: min <= max', 'clamp')
    return z3.If(lt(zx, zl), zl, z3.If(lt(zh, zx), zh, zx))


@_int_unary('leading_zeros')
def _leading_zeros(M, a, info):
    w, s = _int_ty(info); x = _opt(a[0])
    if not is_sym(x): return w - (x & MASK[w]).bit_length()
    r = z3.BitVecVal(w, 32)
    for i in range(w):
        r = z3.If(z3.Extract(i, i, x) == 1, z3.BitVecVal(w - 1 - i, 32), r)
    return r


@_int_unary('ilog2')
def _ilog2(M, a, info):
    w, s = _int_ty(info); x = _opt(a[0])
    if M.I.branch((x == 0) if not is_sym(x) else (bv(x, w) == 0)): raise Panic('argument of integer logarithm must be positive', 'ilog2')
    if not is_sym(x): return (x & MASK[w]).bit_length() - 1
    r = z3.BitVecVal(0, 32)
    for i in range(w):
        r = z3.If(z3.Extract(i, i, x) == 1, z3.BitVecVal(i, 32), r)
    return r


@_int_unary('pow')
def _int_pow(M, a, info):
    w, s = _int_ty(info); x, e = _opt(a[0]), _opt(a[1])
    e = M.I.concretize(e, 'exponent')
    acc = 1
    for _ in range(e):
        r = M.I.binop('MulWithOverflow', acc, x, (w, s))
        if M.I.branch(r.fields[1]): raise Panic('attempt to multiply with overflow', 'pow')
        acc = r.fields[0]
    return acc


@_int_unary('unsigned_abs')
def _unsigned_abs(M, a, info):
    w, s = _int_ty(info); x = _opt(a[0])
    if not is_sym(x): return abs(x)
    return z3.If(x < 0, -x, x)


@_int_unary('rem_euclid')
def _rem_euclid(M, a, info):
    w, s = _int_ty(info); x, y = _opt(a[0]), _opt(a[1])
    if M.I.branch((y == 0) if not is_sym(y) else (bv(y, w) == 0)): raise Panic('attempt to calculate the remainder with a divisor of zero', 'rem_euclid')
    if not s: return M.I.binop('Rem', x, y, (w, s))
    if not is_sym(x) and not is_sym(y): return x % abs(y)
    zx, zy = bv(x, w), bv(y, w)
    r = z3.SRem(zx, zy)
    return z3.If(r < 0, z3.If(zy < 0, r - zy, r + zy), r)


@model('Range::contains', 'RangeInclusive::contains', 'RangeTo::contains', 'RangeFrom::contains')
def _range_contains(M, a, info):
    r = _opt(a[0]); v = _opt(a[1])
    nm = segs(r.name)[-1]
    def lt(p, q): return (p < q) if not (is_sym(p) or is_sym(q)) else z3.ULT(bv(p, 64), bv(q, 64))
    def le(p, q): return (p <= q) if not (is_sym(p) or is_sym(q)) else z3.ULE(bv(p, 64), bv(q, 64))
    if nm == 'Range': return and_(le(r.fields[0], v), lt(v, r.fields[1]))
    if nm == 'RangeTo': return lt(v, r.fields[0])
    if nm == 'RangeFrom': return le(r.fields[0], v)
    raise Unsupported('contains on ' + r.name)


@model('Range::is_empty')
def _range_is_empty(M, a, info):
    r = _opt(a[0]); lo, hi = r.fields
    return not_((lo < hi) if not (is_sym(lo) or is_sym(hi)) else z3.ULT(bv(lo, 64), bv(hi, 64)))


@model('Range::len', 'ExactSizeIterator::len')
def _range_len(M, a, info):
    r = _opt(a[0])
    if type(r) is Adt and segs(r.name)[-1] == 'Range':
        lo, hi = r.fields
        if not (is_sym(lo) or is_sym(hi)): return max(0, hi - lo)
        zl, zh = bv(lo, 64), bv(hi, 64)
        return z3.If(z3.ULT(zl, zh), zh - zl, z3.BitVecVal(0, 64))
    return M.I.len_of(r)


@model('slice::chunk_by', 'slice::chunk_by_mut')
def _chunk_by(M, a, info):
    s = a[0]
    if type(s) is Ptr: s = _deref(M, [s], info)
    items = s.items
    def gen():
        i = s.start
        while i < s.end:
            j = i + 1
            while j < s.end and M.I.branch(M.call_fn(a[1], [Ptr(items, j - 1), Ptr(items, j)])): j += 1
            yield Slice(items, i, j)
            i = j
    return It(gen())


@model('slice::group_by')
def _group_by(M, a, info): return _chunk_by(M, a, info)
