"""Glue: build artefacts -> Program -> Interp; conversion of template results (`Val`) to Python data; native replay."""
import os, sys, json, subprocess, time, resource


def _limit_native():
    # a replayed description may ask for an absurd table: never let the native run take the machine down
    resource.setrlimit(resource.RLIMIT_AS, (2 << 30, 2 << 30))
    resource.setrlimit(resource.RLIMIT_CPU, (120, 120))
import z3
from . import build
from .program import load_program, Unsupported
from .interp import Interp, Leaf
from .models import Models
from .values import *


class Session:
    def __init__(self, verbose=False):
        t = time.time()
        self.art = build.prepare(verbose=verbose)
        self.prog = load_program(self.art['mir'], self.art['json'], self.art['src_root'],
                                 cache_dir=os.path.join(self.art['dir'], 'cache'))
        self.load_s = time.time() - t
        self._replay = None

    def interp(self, **kw):
        return Interp(self.prog, Models, **kw)

    # ---- native replay (batch process kept alive)
    def replay(self, template, args):
        if self._replay is None or self._replay.poll() is not None:
            self._replay = subprocess.Popen([self.art['replay'], '--batch'], stdin=subprocess.PIPE, stdout=subprocess.PIPE,
                                            text=True, bufsize=1, preexec_fn=_limit_native)
        line = template + ' ' + ' '.join(str(to_i64(a)) for a in args) + '\n'
        self._replay.stdin.write(line); self._replay.stdin.flush()
        out = self._replay.stdout.readline()
        if not out:
            # crashed (abort / stack overflow): rerun alone to capture status
            p = subprocess.run([self.art['replay'], template] + [str(to_i64(a)) for a in args], capture_output=True, text=True, timeout=60,
                               preexec_fn=_limit_native)
            self._replay = None
            return {'crash': p.returncode, 'stderr': p.stderr[-500:]}
        return json.loads(out)

    def replay_once(self, template, args, timeout=20):
        """isolated run with a time limit (hang detection)"""
        try:
            p = subprocess.run([self.art['replay'], template] + [str(to_i64(a)) for a in args], capture_output=True, text=True,
                               timeout=timeout, preexec_fn=_limit_native)
        except subprocess.TimeoutExpired:
            return {'timeout': timeout}
        if p.returncode != 0 or not p.stdout.strip():
            return {'crash': p.returncode, 'stderr': p.stderr[-500:]}
        return json.loads(p.stdout)

    def close(self):
        if self._replay is not None:
            try: self._replay.stdin.close(); self._replay.wait(timeout=5)
            except Exception: self._replay.kill()


def to_i64(a):
    a = int(a) & ((1 << 64) - 1)
    return a - (1 << 64) if a >> 63 else a


def sym_args(n, prefix='a'):
    return [z3.BitVec('%s%d' % (prefix, i), 64) for i in range(n)]


def args_value(xs):
    """the `&[i64]` argument of a template"""
    xs = list(xs)
    return Slice(xs, 0, len(xs))


def val_to_py(v, model=None):
    """Val (interpreter Adt) -> nested Python lists; z3 terms are kept (or evaluated under `model`)"""
    while type(v) is Ptr: v = v.get()
    if type(v) is not Adt: raise Unsupported('not a Val: %r' % (v,))
    k = v.variant
    if k == 'N': return None
    x = v.fields[0]
    if k == 'L': return [val_to_py(i, model) for i in x.items]
    if k == 'S':
        if type(x) is SymStr:
            if model is None: return x
            return ''.join(p if isinstance(p, str) else fmt_piece(p, model) for p in x.parts)
        return x
    if k == 'B':
        if isinstance(x, z3.ExprRef):
            if model is None: return x
            return z3.is_true(model.eval(x, model_completion=True))
        return bool(x)
    if k in ('U', 'I'):
        if isinstance(x, z3.ExprRef):
            if model is None: return x
            n = model.eval(x, model_completion=True).as_long()
            if k == 'I' and n >> 63: n -= 1 << 64
            return n
        return x
    raise Unsupported('Val variant ' + str(k))


def fmt_piece(p, model):
    fmt, e = p
    n = model.eval(e, model_completion=True).as_long()
    if fmt == 'dec': return str(n)
    if fmt == 'hex': return '%x' % n
    if fmt == 'HEX': return '%X' % n
    if fmt == 'sdec':
        w = e.size()
        if n >> (w - 1): n -= 1 << w
        return str(n)
    raise Unsupported(fmt)


def concretize_py(x, model):
    """evaluate every z3 term inside a val_to_py structure"""
    if isinstance(x, list): return [concretize_py(i, model) for i in x]
    if isinstance(x, SymStr): return ''.join(p if isinstance(p, str) else fmt_piece(p, model) for p in x.parts)
    if isinstance(x, z3.ExprRef):
        r = model.eval(x, model_completion=True)
        if z3.is_bool(r): return z3.is_true(r)
        return r.as_long()
    return x
