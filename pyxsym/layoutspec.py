"""Reference specification, written directly in SMT (z3 terms), of what the layout template `t_layout` describes:
field sizes/alignments, declared offsets, the repr(C) layout rule, and the realisability predicate of C03.
Everything here is a function of the template's parameter vector only — it never looks at pyxis's output."""
import z3

SCALARS = [('u8', 1), ('u16', 2), ('u32', 4), ('u64', 8), ('u128', 16), ('i8', 1), ('i16', 2), ('i32', 4), ('i64', 8),
           ('i128', 16), ('bool', 1), ('f32', 4), ('f64', 8)]
FIELD_NAMES = ['f0', 'f1', 'f2', 'f3', 'f4', 'f5']
NHEAD = 7
STRIDE = 8


def V(n, w=64): return z3.BitVecVal(n, w)


class Field:
    def __init__(self, a, i):
        b = NHEAD + STRIDE * i
        self.i = i
        self.kind, self.elem, self.count, self.has_addr_raw, self.addr, self.ext_size, self.ext_align, self.named_raw = a[b:b + 8]
        self.has_addr = self.has_addr_raw != 0
        self.named = self.named_raw != 0


class Layout:
    """symbolic view of a t_layout parameter vector with a concrete field count n"""

    def __init__(self, a, n, width=32):
        """`width`: bit-width of the specification's arithmetic; the slice's assumptions must bound every numeric
        parameter well below 2^(width/2) so that no specification term wraps"""
        self.W = width
        if width != 64:
            a = [z3.Extract(width - 1, 0, x) for x in a]
        self.a = a; self.n = n
        self.ps = a[0]
        self.has_size = a[2] != 0; self.size = a[3]
        self.has_align = a[4] != 0; self.align = a[5]
        self.packed = a[6] != 0
        self.fields = [Field(a, i) for i in range(n)]
        self._derive()

    def V(self, n): return z3.BitVecVal(n, self.W)

    def elem_size_align(self, f):
        es = f.ext_size; ea = f.ext_align
        for idx, (nm, sz) in reversed(list(enumerate(SCALARS))):
            es = z3.If(f.elem == idx, self.V(sz), es)
            ea = z3.If(f.elem == idx, self.V(sz), ea)
        return es, ea

    def _derive(self):
        ps = self.ps
        prev_end = self.V(0)
        self.fsize = []; self.falign = []; self.off = []; self.pad = []; self.emitted = []; self.is_arr = []
        self.no_overlap = []
        for f in self.fields:
            es, ea = self.elem_size_align(f)
            k = f.kind
            fsize = z3.If(k == 0, es, z3.If(z3.Or(k == 1, k == 2), ps, z3.If(k == 3, es * f.count,
                    z3.If(k == 4, f.count, ps * f.count))))
            falign = z3.If(k == 0, ea, z3.If(z3.Or(k == 1, k == 2), ps, z3.If(k == 3, ea, z3.If(k == 4, self.V(1), ps))))
            is_arr = z3.UGE(k, 3)
            off = z3.If(f.has_addr, f.addr, prev_end)
            self.no_overlap.append(z3.Implies(f.has_addr, z3.UGE(f.addr, prev_end)))
            self.pad.append(z3.If(f.has_addr, f.addr - prev_end, self.V(0)))
            self.fsize.append(fsize); self.falign.append(falign); self.off.append(off); self.is_arr.append(is_arr)
            # an unnamed (`_`) zero-length array is empty padding and is not emitted; every other field is
            self.emitted.append(z3.Not(z3.And(fsize == 0, is_arr, z3.Not(f.named))))
            prev_end = off + fsize
        self.natural_end = prev_end
        self.fits = z3.Implies(self.has_size, z3.ULE(self.natural_end, self.size))
        self.total = z3.If(self.has_size, self.size, self.natural_end)
        self.tail_pad = z3.If(self.has_size, self.size - self.natural_end, self.V(0))
        # number of regions pyxis emits and the alignment of the sole one (documented default-alignment rule)
        cnt = self.V(0); sole = self.V(0)
        for i in range(self.n):
            p = z3.And(self.pad[i] != 0)
            cnt = cnt + z3.If(p, self.V(1), self.V(0)); sole = sole + z3.If(p, self.V(1), self.V(0))
            cnt = cnt + z3.If(self.emitted[i], self.V(1), self.V(0)); sole = sole + z3.If(self.emitted[i], self.falign[i], self.V(0))
        tp = self.tail_pad != 0
        cnt = cnt + z3.If(tp, self.V(1), self.V(0)); sole = sole + z3.If(tp, self.V(1), self.V(0))
        self.region_count = cnt
        self.eff_align = z3.If(self.has_align, self.align, z3.If(cnt == 1, sole, self.ps))

    @staticmethod
    def pow2(x):
        return z3.And(x != 0, (x & (x - 1)) == 0)

    def multiple_of_pow2(self, x, p):
        """x is a multiple of p, for p a power of two (callers conjoin pow2(p)); avoids a symbolic remainder"""
        return (x & (p - 1)) == 0

    def realisable(self):
        """the acceptance condition of property C03.  Divisibility is only ever required by a power of two (field
        alignments must be powers of two not larger than the effective alignment, which must be one itself), so it
        is written with a mask instead of a remainder."""
        geometry = z3.And(*(self.no_overlap + [self.fits])) if self.no_overlap else self.fits
        e = self.eff_align
        al = [self.pow2(e), self.multiple_of_pow2(self.total, e)]
        for i in range(self.n):
            al.append(z3.Implies(self.emitted[i], z3.And(z3.ULE(self.falign[i], e), self.pow2(self.falign[i]),
                                                         self.multiple_of_pow2(self.off[i], self.falign[i]))))
        aligned = z3.And(*al)
        return z3.If(self.packed, z3.And(z3.Not(self.has_align), geometry), z3.And(geometry, aligned))


def describe(args):
    """render a concrete t_layout parameter vector as .pyxis text (for replay files and reports)"""
    args = [int(x) for x in args]
    def s64(v):
        v &= (1 << 64) - 1
        return v - (1 << 64) if v >> 63 else v
    ps, n = args[0], args[1]
    out = []
    attrs = []
    if args[6] == 2: attrs.append('packed')
    if args[2]: attrs.append('size(%d)' % s64(args[3]))
    if args[4]: attrs.append('align(%d)' % s64(args[5]))
    if args[6] and args[6] != 2: attrs.append('packed')
    ext = []; fields = []
    for i in range(min(n, 6)):
        b = NHEAD + STRIDE * i
        if b + 8 > len(args): break
        kind, elem, count, has_addr, addr, esz, eal, named = args[b:b + 8]
        base = SCALARS[elem][0] if 0 <= elem < 13 else 'X%d' % i
        if not (0 <= elem < 13) and kind != 4:
            ext.append('#[size(%d), align(%d)]\nextern type X%d;' % (s64(esz), s64(eal), i))
        ty = {0: base, 1: '*const ' + base, 2: '*mut ' + base, 3: '[%s; %d]' % (base, count), 4: 'unknown<%d>' % count}.get(
            kind, '[*const %s; %d]' % (base, count))
        pre = '#[address(%d)] ' % s64(addr) if has_addr else ''
        fields.append('    %spub %s: %s,' % (pre, FIELD_NAMES[i] if named else '_', ty))
    out.extend(ext)
    if attrs: out.append('#[%s]' % ', '.join(attrs))
    out.append('pub type T {'); out.extend(fields); out.append('}')
    return '// pointer size %d\n' % ps + '\n'.join(out)
