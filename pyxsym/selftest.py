"""Setup-time self test: the interpreter executes the templates concretely on fixed and on pseudo-random argument
vectors and must agree with the native build (complete summaries, accept/reject, panics)."""
import sys, os, random
from .session import Session, args_value, val_to_py
from .check import same_outcome
from .relational import pair_same_outcome
from .program import Unsupported

CASES = [('t_predefined', [4]), ('t_predefined', [8]),
         ('t_layout', [4, 2, 0, 0, 0, 0, 0, 0, 2, 0, 0, 0, 0, 0, 1, 0, 0, 0, 1, 8, 0, 0, 1]),
         ('t_layout', [8, 1, 1, 16, 1, 8, 0, 3, 4, 2, 1, 0, 0, 0, 1])]
ARITY = {'t_layout': 23, 't_nest': 20, 't_enum': 17, 't_impl': 12, 't_implname': 10, 't_marks': 21, 't_impl6': 13, 't_names': 9, 't_vftargs': 11, 't_privbase': 6, 't_vft': 24, 't_graph': 17, 't_scope': 11, 't_inherit': 17, 't_items': 9,
         't_extern': 14, 't_odd': 9, 't_equiv': 18, 't_unrelated': 14, 't_modtype': 4, 't_order_modules': 4}   # t_order_*: natively order-dependent (C09 known finding)
PAIR = {'t_equiv', 't_unrelated', 't_modtype', 't_order_vft', 't_order_modules'}
POOL = [0, 0, 0, 1, 1, 1, 2, 2, 3, 4, 4, 5, 6, 7, 8, 8, 12, 13, 16, 24, 32, 255, 256, 4096, -1, -2]


def main():
    seed = int(os.environ.get('VERIF_SEED', '0') or 0)
    n_random = int(os.environ.get('VERIF_SELFTEST_N', '12'))
    rng = random.Random(seed)
    cases = list(CASES)
    for t, k in ARITY.items():
        for _ in range(n_random):
            a = [rng.choice(POOL) for _ in range(k)]
            a[0] = rng.choice([4, 8])
            if t in ('t_layout',): a[1] = rng.choice([0, 1, 2])
            if t in ('t_enum',): a[2] = rng.choice([1, 2, 3])
            if t in ('t_vft', 't_graph'): a[1] = rng.choice([1, 2])
            if t == 't_vftargs': a[9] = rng.choice([0, 1, 2, 5])     # a table of thousands of slots exceeds the interpreter's step budget, nothing else
            cases.append((t, a))
    S = Session()
    I = S.interp(max_steps=60000)
    bad = 0; unsup = 0
    for t, a in cases:
        try:
            leaf, _ = I.run_path(t, [args_value(a)], {})
        except Unsupported as e:
            # a concrete run never needs a model the symbolic runs do not need; report, do not fail setup on exotic vectors
            unsup += 1; print('selftest: unsupported on', t, a, str(e)[:160]); continue
        if leaf.kind == 'unbounded':
            # the concrete run merely exceeded the self-test's step budget (e.g. a huge table): not a disagreement
            unsup += 1; print('selftest: step budget exceeded on', t, a); continue
        got = val_to_py(leaf.value) if leaf.kind == 'ret' else {leaf.kind: leaf.value}
        nat = S.replay_once(t, a, timeout=20)
        ok = pair_same_outcome(nat, got) if t in PAIR else same_outcome(nat, got)
        if not ok:
            print('SELFTEST MISMATCH', t, a, str(got)[:300], '!=', str(nat)[:300]); bad += 1
    S.close()
    print('selftest: %d cases, %d mismatches, %d unsupported' % (len(cases), bad, unsup))
    sys.exit(1 if bad else 0)


if __name__ == '__main__':
    main()
