"""Setup-time self test: the interpreter must execute the templates concretely and agree with the native build."""
import sys
from .session import Session, args_value, val_to_py
from .check import same_outcome

CASES = [('t_predefined', [4]), ('t_predefined', [8]),
         ('t_layout', [4, 2, 0, 0, 0, 0, 0, 0, 2, 0, 0, 0, 0, 0, 1, 0, 0, 0, 1, 8, 0, 0, 1]),
         ('t_layout', [8, 1, 1, 16, 1, 8, 0, 3, 4, 2, 1, 0, 0, 0, 1])]


def main():
    S = Session()
    I = S.interp()
    bad = 0
    for t, a in CASES:
        leaf, _ = I.run_path(t, [args_value(a)], {})
        got = val_to_py(leaf.value) if leaf.kind == 'ret' else {leaf.kind: leaf.value}
        nat = S.replay(t, a)
        if not same_outcome(nat, got):
            print('SELFTEST MISMATCH', t, a, got, nat); bad += 1
    S.close()
    print('selftest: %d cases, %d mismatches' % (len(CASES), bad))
    sys.exit(1 if bad else 0)


if __name__ == '__main__':
    main()
