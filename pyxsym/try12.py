import sys, random, json
from pyxsym.check import *
from pyxsym.props import c12
R = Run(c12, 'quick', 0); S = Session(); R.S=S
for sl in c12.slices('quick', random.Random(0)):
    if sl.name.startswith(sys.argv[1]): R.run_slice(S, sl, load_findings('C12'))
print('viol', len(R.violations), 'mism', len(R.mismatches), 'unsup', len(R.unsupported))
seen=set()
for v in R.violations:
    if v['query'] in seen: continue
    seen.add(v['query']); print(v['query'], v['args'], json.dumps(v['native'])[:200])
for u in R.unsupported[:3]: print(json.dumps(u)[:400])
for u in R.mismatches[:3]: print(json.dumps(u)[:600])
S.close()
