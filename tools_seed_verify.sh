#!/bin/bash
# usage: tools_seed_verify.sh <ID>   — confirms a seeded change in its scratch worktree:
#   unpatched: 62 tests + demo pass; patched: 62 tests pass, demo fails.
ID=$1; WT=/tmp/wt/$ID; S=$WT/SEEDED
cd $WT || exit 2
export CARGO_TARGET_DIR=$WT/target CARGO_NET_OFFLINE=true
git checkout -q -- . ; rm -f tests/seeded_demo.rs
DEMO=$(ls $S/*.rs | head -1)
mkdir -p tests; cp $DEMO tests/seeded_demo.rs
echo "== unpatched"; cargo test --offline 2>&1 | grep "^test result" 
git apply $S/patch.diff || { echo "PATCH DOES NOT APPLY"; exit 2; }
echo "== patched"; cargo test --offline 2>&1 | grep "^test result\|FAILED\|failed" | head -12
git checkout -q -- . ; rm -f tests/seeded_demo.rs
