#!/usr/bin/env python3
"""Confirm a seeded change in its scratch worktree, run checks against it in /repo (applied, then reverted), and record
it under /verif/seeded/<name>/.   usage: seedtool.py <worktree-id> <seed-name> <property> <check-id> [<check-id>...]"""
import sys, os, subprocess, json, shutil, glob, time

def sh(cmd, cwd=None, env=None, timeout=3000):
    p = subprocess.run(cmd, shell=True, cwd=cwd, env=env, stdout=subprocess.PIPE, stderr=subprocess.STDOUT, text=True, timeout=timeout)
    return p.returncode, p.stdout

def main():
    wid, name, prop = sys.argv[1:4]; checks = sys.argv[4:]
    wt = '/tmp/wt/' + wid; S = wt + '/SEEDED'
    env = dict(os.environ, CARGO_TARGET_DIR=wt + '/target', CARGO_NET_OFFLINE='true')
    meta = {'property': prop, 'seed': name, 'ran': []}
    demo = sorted(glob.glob(S + '/*.rs'))[0]
    sh('git checkout -q -- . ; rm -f tests/seeded_demo.rs', wt)
    os.makedirs(wt + '/tests', exist_ok=True); shutil.copy(demo, wt + '/tests/seeded_demo.rs')
    rc0, out0 = sh('cargo test --offline 2>&1 | grep "^test result"', wt, env)
    rc, o = sh('git apply %s/patch.diff' % S, wt)
    if rc: print('patch does not apply', o); sys.exit(2)
    rc1, out1 = sh('cargo test --offline 2>&1 | grep "^test result"', wt, env)
    sh('git checkout -q -- . ; rm -f tests/seeded_demo.rs', wt)
    r0 = out0.strip().split('\n'); r1 = out1.strip().split('\n')
    meta['unpatched'] = r0; meta['patched'] = r1
    suite_ok = lambda rs: any('62 passed; 0 failed' in r for r in rs)
    demo_fail = lambda rs: any('FAILED' in r for r in rs)
    meta['confirmed'] = suite_ok(r0) and suite_ok(r1) and not demo_fail(r0) and demo_fail(r1)
    print('unpatched:', r0); print('patched:  ', r1); print('confirmed:', meta['confirmed'])
    # run the checks against the change applied to /repo
    rc, o = sh('git -C /repo status --porcelain')
    if o.strip(): print('/repo not clean:', o); sys.exit(2)
    rc, o = sh('git -C /repo apply %s/patch.diff' % S)
    if rc: print('patch does not apply to /repo', o); sys.exit(2)
    try:
        for c in checks:
            t = time.time()
            rc, out = sh('./check %s --tier quick' % c, '/verif', timeout=3600)
            lines = [l for l in out.split('\n') if l.startswith(('VIOLATION', 'KNOWN-FINDING', 'INCONCLUSIVE', 'MODEL-MISMATCH', c + ':'))]
            meta['ran'].append({'check': c, 'exit': rc, 'seconds': round(time.time() - t), 'lines': [l[:300] for l in lines[:8]]})
            print('check', c, 'exit', rc, round(time.time() - t), 's'); print('\n'.join('   ' + l[:260] for l in lines[:6]))
            # keep one replay file as an example, then clean up
            rp = '/verif/replays/' + c
            if os.path.isdir(rp):
                fs = sorted(os.listdir(rp))
                if fs:
                    os.makedirs('/verif/seeded/%s' % name, exist_ok=True)
                    shutil.copy(os.path.join(rp, fs[0]), '/verif/seeded/%s/example_replay_%s.json' % (name, c))
                shutil.rmtree(rp)
    finally:
        sh('git -C /repo checkout -- .')
    meta['detected_by'] = [r['check'] for r in meta['ran'] if r['exit'] == 1]
    d = '/verif/seeded/' + name
    os.makedirs(d, exist_ok=True)
    shutil.copy(S + '/patch.diff', d + '/patch.diff')
    shutil.copy(demo, d + '/' + os.path.basename(demo))
    for f in ('notes.txt', 'demo_howto.txt'):
        if os.path.exists(S + '/' + f): shutil.copy(S + '/' + f, d + '/' + f)
    json.dump(meta, open(d + '/meta.json', 'w'), indent=1)
    # restore evidence files produced on the patched tree? they are rewritten by the next run on the clean tree
    print('recorded', d, 'detected_by', meta['detected_by'])

main()
